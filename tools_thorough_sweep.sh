#!/bin/sh
# not a registered check: every thorough tier once, evidence and replays outside /verif
cd "$(dirname "$0")"
for p in C01 C02 C03 C04 C05 C06 C07 C08 C09 C10 C11 C12 C13 C14 C15 C16 C17 C18 C19 C20; do
  s=$(date +%s); VERIF_SEED=${VERIF_SEED:-0} VERIF_EVIDENCE_DIR=/tmp/ev_thor VERIF_REPLAY_DIR=/tmp/rp_thor ./check $p --tier thorough > /tmp/thor.$p.log 2>&1; rc=$?; e=$(date +%s)
  echo "$p rc=$rc $((e-s))s $(grep -m1 'VIOLATION\|INCONCLUSIVE' /tmp/thor.$p.log | cut -c1-300)"
done
echo thorough-sweep-done
