#!/bin/sh
# Not a registered check: regenerates everything that is generated (evidence from the quick tier of every check run in
# /verif against /repo, MANIFEST.json, the sensitivity tables of DESIGN.md) and validates the JSON against the schemas.
cd "$(dirname "$0")"
rc_all=0
for p in C01 C02 C03 C04 C05 C06 C07 C08 C09 C10 C11 C12 C13 C14 C15 C16 C17 C18 C19 C20; do
  ./check $p --tier quick > /tmp/final.$p.log 2>&1; rc=$?
  echo "$p rc=$rc $(grep -c KNOWN-FINDING /tmp/final.$p.log) $(tail -1 /tmp/final.$p.log | cut -c1-80)"
  [ $rc -ne 0 ] && rc_all=1
done
/venv/bin/python -m vt.mkmanifest
/venv/bin/python -m vt.mkdesign_tables
python3-vt - <<'PY'
import json, jsonschema, glob
sch=json.load(open('/root/.vp/EVIDENCE.schema.json'))
for p in sorted(glob.glob('/verif/evidence/C*.json')):
    jsonschema.validate(json.load(open(p)), sch)
jsonschema.validate(json.load(open('/verif/MANIFEST.json')), json.load(open('/root/.vp/MANIFEST.schema.json')))
print("schemas ok")
PY
echo "finalize rc_all=$rc_all"
