#!/bin/sh
# Offline setup: nothing to build (pure Python, stdlib only).  Runs the monitor
# self-test: synthetic stores with one injected fault each must make the
# decoder / sanitizers fire, and a clean store must leave them silent.
cd "$(dirname "$0")" || exit 1
export PYTHONDONTWRITEBYTECODE=1 PYTHONHASHSEED=0
mkdir -p evidence replays
exec /venv/bin/python -m vt.selftest
