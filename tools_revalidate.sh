#!/bin/sh
# Not a registered check.  Re-validates the sensitivity and false-alarm corpora against the current framework:
#   ./tools_revalidate.sh neutral   - all refactorings under neutral/ + the variants of vt.neutral_audit (must stay silent)
#   ./tools_revalidate.sh seeds     - every seeded change under seeded/ against the check of the property it breaks
cd "$(dirname "$0")"
case "$1" in
neutral)
  ls -d neutral/refactor-N* | xargs -P 2 -I{} sh -c '/venv/bin/python -m vt.neutral_intake $(basename {}) {} --shards 5 2>&1 | grep -v WARNING'
  /venv/bin/python -m vt.neutral_audit --jobs 2 --shards 5 --out neutral_results.json 2>&1 | grep -v WARNING
  ;;
seeds)
  for d in seeded/*/; do
    id=$(basename $d); prop=$(python3 -c "import json;print(json.load(open('$d/meta.json'))['breaks_property'])")
    echo "$id $prop"
  done | xargs -P 3 -L 1 sh -c '/venv/bin/python -m vt.seed_intake $0 seeded/$0 $1 --shards 5 2>&1 | grep -v WARNING | tr "\n" " " | cut -c1-400; echo'
  ;;
esac
echo revalidate-$1-done
