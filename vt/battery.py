# The read-only query battery (DESIGN.md 2.6): every read-only public method of
# Traph with a spread of arguments, answers canonicalised so that two indexes
# with the same observable content give the same digest.
import hashlib
import inspect

from .util import import_traph

import_traph()
from traph import Traph, TraphException  # noqa: E402

# Public methods of Traph, classified.  A public method in neither list makes
# the read-only check inconclusive (new API: the check must be told).
WRITERS = {
    "add_webentity_creation_rule_iter", "add_webentity_creation_rule", "remove_webentity_creation_rule",
    "create_webentity", "delete_webentity", "add_prefix_to_webentity", "remove_prefix_from_webentity",
    "move_prefix_to_webentity", "move_prefix_to_webentity_from_webentity", "add_page", "add_pages", "add_links",
    "index_batch_crawl_iter", "index_batch_crawl", "close", "clear",
}
READERS = {
    "retrieve_prefix", "get_potential_prefix", "retrieve_webentity", "get_webentity_by_prefix",
    "get_webentity_pages_iter", "get_webentity_pages", "paginate_webentity_pages",
    "get_webentity_crawled_pages_iter", "get_webentity_crawled_pages",
    "get_webentity_most_linked_pages_iter", "get_webentity_most_linked_pages",
    "get_webentity_parent_webentities", "get_webentity_child_webentities_iter", "get_webentity_child_webentities",
    "get_webentity_pagelinks_iter", "get_webentity_pagelinks", "paginate_webentity_pagelinks",
    "get_webentity_outlinks_iter", "get_webentity_outlinks", "get_webentity_outdegree",
    "get_webentity_inlinks_iter", "get_webentity_inlinks", "get_webentity_indegree", "get_webentity_degree",
    "get_page_links", "get_page_indegree", "get_page_outdegree", "get_page_degree",
    "get_webentities_links_slow_iter", "get_webentities_links_iter", "get_webentities_inlinks_iter",
    "get_webentities_outlinks_iter", "get_webentities_links", "get_webentities_links_slow",
    "get_webentities_inlinks", "get_webentities_outlinks", "expand_prefix",
    "links_iter", "pages_iter", "webentity_prefix_iter", "webentity_page_nodes_iter",
    "count_pages", "count_crawled_pages", "count_links", "links_metrics", "metrics",
}


def unclassified_public_methods():
    names = {n for n, v in inspect.getmembers(Traph, predicate=inspect.isfunction) if not n.startswith("_")}
    return sorted(names - WRITERS - READERS)


class MonitorAlarm(Exception):
    """Raised by a monitor hook (never by the library): aborts the battery."""


def canon(x):
    """Canonical, order-insensitive where the API leaves order unspecified."""
    if isinstance(x, dict):
        return ("dict", tuple(sorted(((canon(k), canon(v)) for k, v in x.items()), key=repr)))
    if isinstance(x, (set, frozenset)):
        return ("set", tuple(sorted((canon(v) for v in x), key=repr)))
    if isinstance(x, (list, tuple)):
        return tuple(canon(v) for v in x)
    if isinstance(x, float) and x == int(x):
        return int(x)
    if isinstance(x, bytearray):
        return bytes(x)
    return x


def unordered(lst):
    return ("bag", tuple(sorted((canon(v) for v in lst), key=repr)))


def drain(gen, hook=None):
    state = None
    for state in gen:
        if hook:
            hook()
    return state.result if state is not None else None


def calls(t, probes, extra_weids=(999983,), lite=False):
    """Yield (name, thunk(hook)) for the whole battery.  The list of webentities
    and pages is read from the index itself so two indexes get the same calls."""
    pages = sorted(l for _, l in t.pages_iter())
    wes = {}
    for node, lru in t.webentity_prefix_iter():
        wes.setdefault(node.webentity(), []).append(lru)
    for k in wes:
        wes[k].sort()

    def C(name, fn):
        return (name, fn)

    yield C("pages_iter", lambda h: unordered([(l, bool(n.is_crawled())) for n, l in t.pages_iter()]))
    yield C("webentity_prefix_iter", lambda h: unordered([(l, n.webentity()) for n, l in t.webentity_prefix_iter()]))
    yield C("count_pages", lambda h: t.count_pages())
    yield C("count_crawled_pages", lambda h: t.count_crawled_pages())
    yield C("count_links", lambda h: t.count_links())
    yield C("links_iter_out", lambda h: unordered(list(t.links_iter(out=True))))
    yield C("links_iter_in", lambda h: unordered(list(t.links_iter(out=False))))
    plist = list(probes) + pages[:12]
    for q in plist:
        yield C("retrieve_webentity %r" % q, lambda h, q=q: t.retrieve_webentity(q))
        yield C("retrieve_prefix %r" % q, lambda h, q=q: t.retrieve_prefix(q))
        yield C("get_potential_prefix %r" % q, lambda h, q=q: t.get_potential_prefix(q))
        yield C("get_webentity_by_prefix %r" % q, lambda h, q=q: t.get_webentity_by_prefix(q))
        yield C("expand_prefix %r" % q, lambda h, q=q: t.expand_prefix(q))
        yield C("get_page_links %r" % q, lambda h, q=q: unordered(t.get_page_links(q)))
        yield C("get_page_links in %r" % q, lambda h, q=q: unordered(t.get_page_links(q, include_internal=False, include_outbound=False)))
        yield C("get_page_links out %r" % q, lambda h, q=q: unordered(t.get_page_links(q, include_inbound=False, include_internal=False)))
        yield C("degrees %r" % q, lambda h, q=q: (t.get_page_indegree(q), t.get_page_outdegree(q), t.get_page_degree(q),
                                                  t.get_page_indegree(q, weighted=True), t.get_page_outdegree(q, weighted=True),
                                                  t.get_page_degree(q, weighted=True)))
    # the same lookups with the LRU given as text (the API encodes it with the index's encoding)
    enc = getattr(t, "encoding", "utf-8") or "utf-8"
    for q in list(probes):
        try:
            qt = q.decode(enc)
            if qt.encode(enc) != q:
                continue
        except Exception:
            continue
        yield C("retrieve_webentity text %r" % q, lambda h, qt=qt: t.retrieve_webentity(qt))
        yield C("retrieve_prefix text %r" % q, lambda h, qt=qt: t.retrieve_prefix(qt))
        yield C("get_potential_prefix text %r" % q, lambda h, qt=qt: t.get_potential_prefix(qt))
        yield C("get_webentity_by_prefix text %r" % q, lambda h, qt=qt: t.get_webentity_by_prefix(qt))
        yield C("get_page_links text %r" % q, lambda h, qt=qt: unordered(t.get_page_links(qt)))
        yield C("degrees text %r" % q, lambda h, qt=qt: (t.get_page_indegree(qt), t.get_page_outdegree(qt), t.get_page_degree(qt)))
    targets = [(w, ps) for w, ps in sorted(wes.items())]
    if targets:
        targets.append((extra_weids[0], targets[0][1]))  # unknown id with existing prefixes
    if probes:
        targets.append((extra_weids[0], [probes[-1]]))  # prefixes probably not in the index
    for w, ps in targets:
        tag = "%s %r" % (w, ps[:1])
        yield C("get_webentity_pages " + tag, lambda h, w=w, ps=ps: unordered([(x["lru"], x["crawled"]) for x in t.get_webentity_pages(w, ps)]))
        yield C("get_webentity_pages_iter " + tag, lambda h, w=w, ps=ps: unordered([(x["lru"], x["crawled"]) for x in drain(t.get_webentity_pages_iter(w, ps), h)]))
        yield C("get_webentity_crawled_pages " + tag, lambda h, w=w, ps=ps: unordered([x["lru"] for x in t.get_webentity_crawled_pages(w, ps)]))
        yield C("get_webentity_crawled_pages_iter " + tag, lambda h, w=w, ps=ps: unordered([x["lru"] for x in drain(t.get_webentity_crawled_pages_iter(w, ps), h)]))
        for k, depth in ((1, None), (3, None), (10, 1), (10, 0)):
            yield C("most_linked %s %s %s" % (tag, k, depth), lambda h, w=w, ps=ps, k=k, depth=depth: [
                (x["lru"], x["indegree"]) for x in drain(t.get_webentity_most_linked_pages_iter(w, ps, pages_count=k, max_depth=depth), h)])
        yield C("most_linked default " + tag, lambda h, w=w, ps=ps: [(x["lru"], x["indegree"]) for x in t.get_webentity_most_linked_pages(w, ps)])
        yield C("parents " + tag, lambda h, w=w, ps=ps: unordered(t.get_webentity_parent_webentities(w, ps)))
        yield C("children " + tag, lambda h, w=w, ps=ps: unordered(t.get_webentity_child_webentities(w, ps)))
        yield C("children_iter " + tag, lambda h, w=w, ps=ps: unordered(drain(t.get_webentity_child_webentities_iter(w, ps), h)))
        for ib, ii, io in ((0, 1, 0), (0, 0, 1), (1, 0, 0), (1, 1, 1), (0, 0, 0)):
            yield C("pagelinks %s %d%d%d" % (tag, ib, ii, io), lambda h, w=w, ps=ps, ib=ib, ii=ii, io=io: unordered(
                t.get_webentity_pagelinks(w, ps, include_inbound=bool(ib), include_internal=bool(ii), include_outbound=bool(io))))
        yield C("pagelinks_iter " + tag, lambda h, w=w, ps=ps: unordered(drain(t.get_webentity_pagelinks_iter(w, ps, include_inbound=True, include_outbound=True), h)))
        yield C("outlinks " + tag, lambda h, w=w, ps=ps: unordered(list(t.get_webentity_outlinks(w, ps))))
        yield C("inlinks " + tag, lambda h, w=w, ps=ps: unordered(list(t.get_webentity_inlinks(w, ps))))
        yield C("outlinks_iter " + tag, lambda h, w=w, ps=ps: unordered(list(drain(t.get_webentity_outlinks_iter(w, ps), h))))
        yield C("inlinks_iter " + tag, lambda h, w=w, ps=ps: unordered(list(drain(t.get_webentity_inlinks_iter(w, ps), h))))
        yield C("we degrees " + tag, lambda h, w=w, ps=ps: (t.get_webentity_indegree(w, ps), t.get_webentity_outdegree(w, ps), t.get_webentity_degree(w, ps)))
        yield C("page_nodes_iter " + tag, lambda h, w=w, ps=ps: unordered([l for _, l in t.webentity_page_nodes_iter(w, ps)]))
        try:
            pst = [p_.decode(enc) for p_ in ps]
            if [x.encode(enc) for x in pst] != list(ps):
                pst = None
        except Exception:
            pst = None
        if pst is not None:
            # the same webentity queried with its prefixes given as text
            yield C("get_webentity_pages text " + tag, lambda h, w=w, pst=pst: unordered([(x["lru"], x["crawled"]) for x in t.get_webentity_pages(w, pst)]))
            yield C("most_linked text " + tag, lambda h, w=w, pst=pst: [(x["lru"], x["indegree"]) for x in t.get_webentity_most_linked_pages(w, pst, pages_count=3)])
            yield C("children text " + tag, lambda h, w=w, pst=pst: unordered(t.get_webentity_child_webentities(w, pst)))
            yield C("parents text " + tag, lambda h, w=w, pst=pst: unordered(t.get_webentity_parent_webentities(w, pst)))
            yield C("pagelinks text " + tag, lambda h, w=w, pst=pst: unordered(t.get_webentity_pagelinks(w, pst, include_inbound=True)))
            yield C("outlinks text " + tag, lambda h, w=w, pst=pst: unordered(list(t.get_webentity_outlinks(w, pst))))
            yield C("inlinks text " + tag, lambda h, w=w, pst=pst: unordered(list(t.get_webentity_inlinks(w, pst))))
            yield C("paginate_pages text %s k=None co=False" % tag, lambda h, w=w, pst=pst: walk_pages(t, w, pst, None, False, h))
            yield C("paginate_pagelinks text %s c=None TrueTrue" % tag, lambda h, w=w, pst=pst: walk_links(t, w, pst, None, True, True, h))
        for k in (1, 2, 3, 7, None):
            for co in (False, True):
                yield C("paginate_pages %s k=%s co=%s" % (tag, k, co), lambda h, w=w, ps=ps, k=k, co=co: walk_pages(t, w, ps, k, co, h))
        for c in (1, 2, None):
            for ii, io in ((True, False), (True, True), (False, False)):
                yield C("paginate_pagelinks %s c=%s %s%s" % (tag, c, ii, io), lambda h, w=w, ps=ps, c=c, ii=ii, io=io: walk_links(t, w, ps, c, ii, io, h))
    for o in (True, False):
        for auto in (True, False):
            yield C("network out=%s auto=%s" % (o, auto), lambda h, o=o, auto=auto: canon(t.get_webentities_links(out=o, include_auto=auto)))
            yield C("network_iter out=%s auto=%s" % (o, auto), lambda h, o=o, auto=auto: canon(drain(t.get_webentities_links_iter(out=o, include_auto=auto), h)))
            yield C("network_slow out=%s auto=%s" % (o, auto), lambda h, o=o, auto=auto: canon(t.get_webentities_links_slow(out=o, include_auto=auto)))
            yield C("network_slow_iter out=%s auto=%s" % (o, auto), lambda h, o=o, auto=auto: canon(drain(t.get_webentities_links_slow_iter(out=o, include_auto=auto), h)))
    yield C("get_webentities_inlinks", lambda h: canon(t.get_webentities_inlinks()))
    yield C("get_webentities_outlinks", lambda h: canon(t.get_webentities_outlinks(include_auto=True)))
    yield C("get_webentities_inlinks_iter", lambda h: canon(drain(t.get_webentities_inlinks_iter(), h)))
    yield C("get_webentities_outlinks_iter", lambda h: canon(drain(t.get_webentities_outlinks_iter(), h)))
    yield C("links_metrics", lambda h: canon(t.links_metrics()))
    # metrics() divides by the number of stems: only defined on a non-empty trie
    if pages or wes:
        yield C("metrics", lambda h: canon(t.metrics()))


def walk_pages(t, w, ps, k, crawled_only, hook=None):
    tok = None
    out = []
    for _ in range(100000):
        r = t.paginate_webentity_pages(w, ps, page_count=k, pagination_token=tok, crawled_only=crawled_only)
        if hook:
            hook()
        out.append((tuple((x["lru"], x["crawled"]) for x in r["pages"]), r["count"], r["count_crawled"], r["done"], r.get("token")))
        if r["done"]:
            return tuple(out)
        tok = r["token"]
    raise RuntimeError("pagination does not terminate")


def walk_links(t, w, ps, c, ii, io, hook=None):
    tok = None
    out = []
    for _ in range(100000):
        r = t.paginate_webentity_pagelinks(w, ps, include_internal=ii, include_outbound=io, source_page_count=c, pagination_token=tok)
        if hook:
            hook()
        out.append((unordered(r["pagelinks"]), r["count_sourcepages"], r["count_pagelinks"], r["done"], r.get("token")))
        if r["done"]:
            return tuple(out)
        tok = r["token"]
    raise RuntimeError("pagination does not terminate")


LITE_SKIP = ("get_webentity_pages_iter", "get_webentity_crawled_pages_iter", "children_iter", "pagelinks_iter", "outlinks_iter",
             "inlinks_iter", "network_iter", "network_slow_iter", "get_webentities_inlinks_iter", "get_webentities_outlinks_iter",
             "most_linked default", "page_nodes_iter", "expand_prefix", "get_page_links in", "get_page_links out")


def lite_keep(name):
    if name.startswith(LITE_SKIP):
        return False
    if name.startswith("paginate_pages") and not (" k=2 " in name or " k=None " in name):
        return False
    if name.startswith("paginate_pagelinks") and " c=1 " not in name:
        return False
    if name.startswith("pagelinks ") and not name.endswith(("111", "010")):
        return False
    if name.startswith("most_linked") and not name.endswith("3 None"):
        return False
    if name.startswith("network") and "auto=True" in name and "out=False" in name:
        return False
    return True


def scale_keep(name):
    """For indexes of thousands of pages: the reduced battery, paginations with the default size only
    (walking 2000+ pages two at a time costs a quadratic number of node reads)."""
    if name.startswith("paginate_pages"):
        return " k=None " in name
    if name.startswith("paginate_pagelinks"):
        return " c=None " in name and name.endswith(("TrueFalse", "TrueTrue"))
    return lite_keep(name)


def run(t, probes, around=None, foreign=None, lite=False):
    """Execute the battery.  Returns (answers dict, counts).  `around(name, thunk)`
    may wrap each call (read-only window monitor); exceptions become part of the
    answer: TraphException as ('refused',), anything else as ('EXC', type)."""
    answers = {}
    n_ok = n_refused = n_exc = 0
    for name, thunk in calls(t, probes):
        if lite == "scale":
            if not scale_keep(name):
                continue
        elif lite and not lite_keep(name):
            continue
        try:
            if around is not None:
                v = around(name, thunk)
            else:
                v = thunk(None)
            v = canon(v)
            n_ok += 1
        except TraphException:
            v = ("refused",)
            n_refused += 1
        except MonitorAlarm:
            raise
        except Exception as e:
            v = ("EXC", type(e).__name__)
            n_exc += 1
            if foreign is not None:
                foreign.append((name, type(e).__name__, str(e)[:120]))
        answers[name] = v
    return answers, (n_ok, n_refused, n_exc)


def digest(answers):
    h = hashlib.sha256()
    for k in sorted(answers):
        h.update(repr((k, answers[k])).encode("utf-8", "backslashreplace"))
    return h.hexdigest()


def diff(a, b, limit=5):
    out = []
    for k in sorted(set(a) | set(b)):
        if a.get(k, "<absent>") != b.get(k, "<absent>"):
            out.append((k, repr(a.get(k, "<absent>"))[:300], repr(b.get(k, "<absent>"))[:300]))
            if len(out) >= limit:
                break
    return out
