# Per-property specification: engine, workload profile, tiers, non-triviality
# rule, deciding counters.  (DESIGN.md section 3.)

COMMON_ASSUMPTIONS = [
    "verdict covers only the executions generated in this run (sampling, not exhaustion)",
    "reference model vt/model.py and raw decoder vt/rawdecode.py are trusted code, written from the property statements",
    "x86-64 struct layout, CPython 3.12 (/venv/bin/python), package imported from $REPO working tree",
    "rules come from Hyphe's family of six regexes and are re-supplied on reopen (API precondition)",
]

ALL_CLASSES = ("real", "real", "deep", "bin", "long", "text")


def _hist(prop, audits, profile, rule, nontrivial, deciding, anchors, quick, thorough, level="exploration", assumptions=()):
    return {
        "engine": "history",
        "audits": audits,
        "profile": profile,
        "rule": rule + " Scale cases, one each per run and audited once at their end: an index of 300+ sites (ids past 256), 1100+ siblings "
                       "submitted in sorted order, and a big index (2300+ pages in one webentity so that the 1000/2000/5000 yield thresholds are "
                       "crossed unforced, hubs with 2000+ inbound / outbound links, a 300-fold link, a creation request with 1100 prefixes)"
                       + ("; 66000+ webentities created one by one (ids past two bytes)." if quick.get("ids") else "."),
        "nontrivial": nontrivial,
        "deciding_counters": deciding,
        "anchors": anchors,
        "quick": quick,
        "thorough": thorough,
        "level": level,
        "assumptions": list(assumptions),
    }


Q = lambda cases, nops=(30, 60), **kw: dict(dict(cases=cases, nops=nops, audit_every=(3, 5, 8), time_cap=120, watchdog=1200, min_cases=max(4, cases // 8), wide=300, big=2300, sorted_chain=1100), **kw)
T = lambda cases, nops=(40, 80, 150, 300), **kw: dict(dict(cases=cases, nops=nops, audit_every=(1, 3, 5, 10), time_cap=800, watchdog=3000, min_cases=max(8, cases // 16), wide=700, big=5200, sorted_chain=1500), **kw)

PROPS = {}

PROPS["C01"] = _hist(
    "C01", ["C01"],
    dict(classes=ALL_CLASSES, long=True, encodings=("utf-8", "latin-1"), pool=(12, 24, 40, 70),
         weights={"add_page": 7, "add_pages": 4, "add_links": 4, "batch": 4, "create": 2, "rule": 1, "rmrule": 1, "reopen": 1}),
    "random histories (10-300 write requests over all four page-submitting entry points, webentity and rule edits, reopen) on "
    "file and memory indexes over Hyphe-shaped, binary, multi-block and non-ASCII LRUs; after every k-th request the page "
    "enumeration (as a list), both counts, every crawled mark and every nb_created_pages are compared with the model and the raw "
    "decoder. A case is non-trivial when it ends with >= 8 pages, some crawled and some not; distinct = distinct final store bytes.",
    lambda f: f["pages"] >= 8 and 0 < f["crawled"] < f["pages"],
    ["C01_pages_compared", "reports_checked"],
    ["LRUTrie.add_page", "LRUTrie.add_lru", "LRUTrie.pages_iter", "LRUTrie.count_pages", "LRUTrie.count_crawled_pages"],
    Q(1200, sorted_chain=1100), T(6000, exhaustive_shapes=5, soak=3000, sorted_chain=1500),
)

PROPS["C02"] = _hist(
    "C02", ["C02"],
    dict(classes=("long", "bin", "real", "long", "bin", "text"), long=True, encodings=("utf-8", "latin-1"), pool=(12, 24, 40),
         weights={"add_page": 6, "add_links": 3, "batch": 2, "create": 3, "addp": 2, "rule": 2, "rmp": 1, "reopen": 1}),
    "random histories weighted to multi-block stems (lengths 73..1000 incl. exact payload multiples, families differing only in "
    "their last byte) and binary stems; every stem-prefix the model holds is looked up top-down, rebuilt bottom-up and must appear "
    "once in the full traversal, mutated neighbours must be absent, and the raw decoder checks S1-S5 (whole blocks, pointers in "
    "range, each block reached once, strict BST on full stems, parent pointers, contiguous flagged tails). Non-trivial: >= 10 "
    "stored stem-prefixes at the end; distinct = distinct final store bytes.",
    lambda f: f["nodes"] >= 10,
    ["C02_lookups", "C02_absent_probes", "decodes"],
    ["LRUTrie.lru_node", "LRUTrie.windup_lru", "LRUTrie.dfs_iter", "LRUTrieNode.read", "detailed_chunks_iter"],
    Q(480, exhaustive_shapes=4, sorted_chain=1100), T(2400, exhaustive_shapes=6, sorted_chain=1500),
)

PROPS["C03"] = _hist(
    "C03", ["C03"],
    dict(classes=("real", "real", "bin", "long", "text"), encodings=("utf-8", "latin-1"), long=True, pool=(8, 14, 24),
         weights={"add_page": 2, "add_pages": 1, "add_links": 8, "batch": 6, "create": 2, "addp": 1, "rule": 1, "reopen": 1}),
    "link-heavy histories (repeated pairs inside and across calls, self-links, pages that are source and target in one batch, "
    "empty target lists, add_links and index_batch_crawl interleaved with page/webentity/rule writes touching the same blocks); "
    "audits compare get_page_links under all 7 switch settings, six degree figures, count_links, both links_iter directions and "
    "the decoder's outbound and inbound multisets with the model's submission counts. Non-trivial: >= 6 distinct pairs with a "
    "repeated pair and a self-link; distinct = distinct final store bytes.",
    lambda f: f["pairs"] >= 6 and f["multi"] >= 1 and f["self"] >= 1,
    ["C03_page_link_answers", "C03_degree_answers", "C03_link_pairs_compared"],
    ["LinkStore.add_links", "Traph.add_links", "Traph.index_batch_crawl_iter", "Traph.get_page_links", "Traph.links_iter"],
    Q(420), T(2000, soak=6000),
)

PROPS["C04"] = _hist(
    "C04", ["C04"],
    dict(classes=("real", "real", "deep", "bin", "long", "text"), encodings=("utf-8", "latin-1"), long=True, pool=(10, 20, 30),
         weights={"add_page": 4, "add_links": 2, "create": 6, "delete": 3, "addp": 5, "rmp": 3, "mvp": 3, "rule": 1, "rmrule": 1, "reopen": 1}),
    "prefix-edit-heavy histories (create / delete incl. subsets / add / remove / move, automatic and rule-driven creation) with "
    "nested, sibling and same-webentity-nested prefixes; every audit resolves pages, stored stem-prefixes and absent neighbours "
    "(diverging at each depth, below leaves) through retrieve_webentity / retrieve_prefix and compares with the model's longest "
    "attached stem-prefix, checks refusals of already attached prefixes, and compares the prefix enumeration and the decoder's "
    "webentity fields with the model. Non-trivial: >= 3 webentities and >= 1 nested prefix pair; distinct = final store bytes.",
    lambda f: f["we"] >= 3 and f["nested"] >= 1,
    ["C04_resolutions", "C04_resolutions_none"],
    ["LRUTrie.follow_lru", "Traph.retrieve_webentity", "Traph.retrieve_prefix", "Traph.add_prefix_to_webentity", "Traph.move_prefix_to_webentity"],
    Q(640, ids=66000), T(5000, ids=140000),
)

PROPS["C05"] = _hist(
    "C05", ["C05"],
    dict(classes=("real", "real", "deep", "bin", "long", "text"), long=True, encodings=("utf-8", "latin-1"), pool=(12, 24, 40),
         weights={"add_page": 6, "add_links": 3, "batch": 2, "create": 5, "delete": 2, "addp": 4, "rmp": 2, "mvp": 2, "rule": 1}),
    "histories with pages on, above and below prefixes and nested webentities; for every webentity (prefixes shuffled) "
    "get_webentity_pages and get_webentity_crawled_pages are compared with the pages the model resolves to it, and the union over "
    "all webentities with the set of resolved pages (partition). Non-trivial: >= 3 webentities, >= 8 pages, >= 1 nested prefix.",
    lambda f: f["we"] >= 3 and f["pages"] >= 8 and f["nested"] >= 1,
    ["C05_webentities"],
    ["LRUTrie.webentity_dfs_iter", "Traph.get_webentity_pages_iter", "Traph.get_webentity_crawled_pages_iter"],
    Q(1400), T(8000),
)

PROPS["C06"] = _hist(
    "C06", ["C06", "C04"],
    dict(classes=("real", "real", "deep", "long", "text"), encodings=("utf-8", "latin-1"), long=True, pool=(12, 24, 40), rule_prob=0.9,
         weights={"add_page": 8, "add_pages": 2, "add_links": 3, "batch": 2, "create": 2, "delete": 2, "addp": 1, "rmp": 1,
                  "rule": 4, "rmrule": 2, "reopen": 1}),
    "histories under every default rule x 0-3 anchored rules (path1-4, subdomain) with rule install/remove/replace churn on "
    "populated indexes and reopen; every write report's created_webentities is compared with the model ladder (E, K, default "
    "only if both absent; variations not yet owned), every inserted page must resolve to max(E,K), get_potential_prefix is "
    "compared on pages/prefixes/absent LRUs and must not write, rule installation must re-insert exactly the pages beneath its "
    "anchor (observed order replayed in the model). Non-trivial: >= 2 webentity creations reported and >= 5 pages.",
    lambda f: f["auto_groups"] >= 2 and f["pages"] >= 5,
    ["C06_potential", "C06_resolves_after_insert", "reports_checked"],
    ["Traph.__add_page", "Traph.get_potential_prefix", "Traph.add_webentity_creation_rule_iter", "LRUTrieWalkHistory.rules_to_apply", "lru_variations"],
    Q(640, rulebig=1150), T(5000, rulebig=2300),
)

PROPS["C07"] = _hist(
    "C07", ["C07"],
    dict(classes=("real", "real", "deep", "bin", "long", "text"), long=True, encodings=("utf-8", "latin-1"), pool=(10, 20, 30),
         weights={"add_page": 3, "add_links": 7, "batch": 4, "create": 4, "delete": 2, "addp": 3, "rmp": 2, "mvp": 1, "rule": 1}),
    "histories with unresolved pages (LRUs the default rule does not match), nested prefixes and links across and inside "
    "webentities; both network variants x 2 directions x include_auto are compared with model links pushed through model "
    "resolution, crawled/uncrawled tallies with the pages resolving to each webentity, inbound with the transpose of outbound. "
    "Non-trivial: >= 3 webentities and >= 6 link pairs.",
    lambda f: f["we"] >= 3 and f["pairs"] >= 6,
    ["C07_networks", "C07_transposes"],
    ["LRUTrie.dfs_with_webentity_iter", "Traph.get_webentities_links_iter", "Traph.get_webentities_links_slow_iter", "LRUTrie.windup_lru_for_webentity"],
    Q(1100), T(5000),
)

PROPS["C08"] = _hist(
    "C08", ["C08"],
    dict(classes=("real", "real", "deep", "bin", "long", "text"), long=True, encodings=("utf-8", "latin-1"), pool=(10, 20, 30), rule_prob=0.8,
         weights={"add_page": 3, "add_links": 7, "batch": 4, "create": 4, "delete": 2, "addp": 3, "rmp": 2, "mvp": 1, "rule": 2}),
    "same state space as C07; for every webentity (prefixes shuffled) get_webentity_pagelinks under all 7 switch settings is "
    "compared as a multiset of (source,target,weight) with the model, and the cited / citing webentity sets with the "
    "resolutions of the other link ends. Non-trivial: >= 3 webentities and >= 6 link pairs.",
    lambda f: f["we"] >= 3 and f["pairs"] >= 6,
    ["C08_pagelink_answers", "C08_cited_sets"],
    ["Traph.get_webentity_pagelinks_iter", "Traph.get_webentity_outlinks_iter", "Traph.get_webentity_inlinks_iter"],
    Q(420), T(2000),
)

PROPS["C13"] = _hist(
    "C13", ["C13"],
    dict(classes=("real", "deep", "deep", "long", "text"), long=True, encodings=("utf-8", "latin-1"), pool=(10, 20, 30), rule_prob=0.7,
         weights={"add_page": 7, "add_links": 2, "batch": 4, "create": 4, "delete": 2, "addp": 4, "rmp": 1, "mvp": 3, "rule": 3, "rmrule": 1, "reopen": 1}),
    "histories that insert pages first (paths exist unmarked) and then attach deeper prefixes by each of the five routes "
    "(explicit create, add prefix, move, automatic on insertion, rule installation), parents created after children; for every "
    "webentity the child and parent webentity sets are compared with the model's set computation over attached prefixes. "
    "Non-trivial: >= 3 webentities with >= 2 nested prefix pairs.",
    lambda f: f["we"] >= 3 and f["nested"] >= 2,
    ["C13_webentities", "C13_children_expected"],
    ["LRUTrie.dfs_iter", "Traph.get_webentity_child_webentities_iter", "Traph.get_webentity_parent_webentities", "LRUTrie.add_lru"],
    Q(1200, nops=(40, 80, 120)), T(8000),
)

PROPS["C19"] = _hist(
    "C19", ["C19"],
    dict(classes=("long", "real", "long", "bin", "text"), encodings=("utf-8", "latin-1"), long=True, pool=(10, 20, 30), rule_prob=0.85,
         weights={"add_page": 6, "add_pages": 2, "add_links": 4, "batch": 3, "create": 4, "addp": 2, "rule": 3, "rmrule": 1, "rmp": 1, "reopen": 1}),
    "histories over every listed stem length (73..1000) with heavy re-submission; after EVERY request both store sizes are "
    "compared with 1 + sum(ceil(len(last stem)/74)) over the model's stem-prefixes and 1 + 2*submissions, the decoder looks for "
    "unreferenced blocks/stubs, and metrics()/count_links figures are compared with the same quantities. Non-trivial: >= 1 stem "
    "longer than one block and >= 1 link.",
    lambda f: f["long"] >= 1 and f["links"] >= 1,
    ["C19_per_op_sizes", "C19_accountings", "C19_metrics"],
    ["LRUTrieNode.write", "detailed_chunks_iter", "LRUTrie.metrics", "LinkStore.count_links"],
    Q(1400), T(2400, soak=20000),
)

PROPS["C20"] = _hist(
    "C20", ["C20"],
    dict(classes=("real", "deep", "real", "long", "text"), long=True, encodings=("utf-8", "latin-1"), pool=(10, 20, 30),
         weights={"add_page": 4, "add_links": 8, "batch": 4, "create": 3, "addp": 2, "delete": 1, "rule": 1}),
    "link-heavy histories; for every webentity, k in {1,2,3,5,10,n+1} and depth limit in {none,0,1,2} the answer must be a "
    "correct top-k of the eligible pages under the true number of distinct inbound source pages (0 for unlinked pages). "
    "Non-trivial: >= 2 webentities, >= 6 pages, >= 4 link pairs.",
    lambda f: f["we"] >= 2 and f["pages"] >= 6 and f["pairs"] >= 4,
    ["C20_answers"],
    ["Traph.get_webentity_most_linked_pages_iter", "LinkStore.weighted_link_nodes_iter"],
    Q(360), T(1600),
)

PROPS["C12"] = _hist(
    "C12", ["C12", "C04"],
    dict(classes=("real", "real", "deep", "long", "text"), long=True, encodings=("utf-8", "latin-1"), pool=(10, 20, 30), backends=("file", "file", "memory"), rule_prob=0.7,
         weights={"add_page": 6, "add_links": 2, "batch": 1, "create": 6, "delete": 5, "addp": 1, "rmp": 2, "rule": 2, "rmrule": 1,
                  "reopen": 4, "clear": 1}),
    "creation/deletion churn (explicit, automatic, rule-driven) with close/reopen at random positions and clear; the id monitor at "
    "the client boundary checks every id of every write report against the running maximum of all ids issued since creation or "
    "the last clear (kept by the harness across deletions and reopen), that one explicit request yields one id, and that ids "
    "rise in creation order inside one report. Non-trivial: >= 3 ids issued and >= 1 reopen or deletion in the history.",
    lambda f: f["auto_groups"] >= 3 and (f["reopens"] >= 1 or f["deletes"] >= 1),
    ["ids_checked", "reopens"],
    ["Traph.__generated_web_entity_id", "LRUTrieHeader.write", "LRUTrieHeader.increment_last_webentity_id", "Traph.__add_prefixes"],
    Q(800, ids=66000), T(8000, ids=140000),
)

def _paging(prop, profile, rule, nontrivial, deciding, anchors, quick, thorough):
    return {"engine": "paging", "profile": profile, "rule": rule, "nontrivial": nontrivial, "deciding_counters": deciding,
            "anchors": anchors, "quick": quick, "thorough": thorough, "level": "exploration", "assumptions": [
                "main workloads keep ternary path depth small (pools <= 70 LRUs); deeper chains only in the isolated deep-chain probe"]}


PROPS["C09"] = _paging(
    "C09",
    dict(classes=("real", "real", "deep", "bin", "long"), long=True, pool=(12, 24, 40), rule_prob=0.5, insert_prob=0.5,
         weights={"add_page": 9, "add_pages": 2, "add_links": 2, "batch": 1, "create": 3, "addp": 3, "delete": 1, "rmp": 1, "mvp": 1, "rule": 1}),
    "random states (webentities with 1-4 prefixes incl. prefixes without pages, nested foreign prefixes, prefixes that are pages) "
    "paged through with k in {1,2,3,7,n-1,n,n+1} (every k for the exhaustive sibling shapes), normal and crawled-only, feeding "
    "every token back: each answer's counts/size/token/done are checked and the concatenation compared with [per prefix in the "
    "given order: sorted(pages resolving to that prefix)]; in half of the runs 0-3 pages are inserted between successive calls "
    "(before/at/after the cursor, under other prefixes, re-submissions, with automatic creation) and the trace is checked for "
    "repeats, skipped throughout-pages and alien pages; token codec round-trips exhaustively for paths up to the stated length; "
    "one isolated deep-chain probe; a share of the cases are a webentity with 11-70 prefixes and an index of 260-300 webentities "
    "of which those with the highest ids are paged through. Non-trivial: >= 1 webentity and >= 4 pages; distinct = distinct store bytes.",
    lambda f: f["we"] >= 1 and f["pages"] >= 4,
    ["C09_paginations", "C09_multi_call_paginations", "C09_resumes", "C09_codec_roundtrips"],
    ["LRUTrie.webentity_inorder_iter", "Traph.paginate_webentity_pages", "build_pagination_token", "parse_pagination_token"],
    dict(cases=640, nops=(20, 40), time_cap=120, watchdog=1200, min_cases=60, w_random=3, w_shape=1, codec_len=6, codec_random=300, deep_n=1200),
    dict(cases=20000, nops=(25, 50, 90), time_cap=800, watchdog=3000, min_cases=400, w_random=3, w_shape=1, exhaustive_shapes=6,
         codec_len=8, codec_random=5000, deep_n=1200),
)

PROPS["C10"] = _paging(
    "C10",
    dict(classes=("real", "real", "deep", "bin", "long"), long=True, pool=(8, 14, 24), rule_prob=0.4,
         weights={"add_page": 6, "add_pages": 1, "add_links": 7, "batch": 4, "create": 3, "addp": 3, "delete": 1, "rmp": 1, "mvp": 1, "rule": 1}),
    "random states with link-less pages and whole prefixes without link-bearing pages between link-bearing ones; every webentity "
    "(prefixes shuffled) x 3 switch settings x source counts {1,2,3,n,n+1} (every count for exhaustive shapes) is paged through "
    "feeding every token back; every issued token must be resumable, each non-final answer must cover exactly the requested "
    "number of sources, counts must match contents and the concatenation must equal get_webentity_pagelinks as a multiset of "
    "(source,target,weight). One isolated deep-chain probe; a share of the cases are a webentity with 11-70 prefixes and an index "
    "of 260-300 webentities of which those with the highest ids are paged through. Non-trivial: >= 1 webentity and >= 2 link pairs; distinct = store bytes.",
    lambda f: f["we"] >= 1 and f["pairs"] >= 2,
    ["C10_paginations", "C10_multi_call_paginations", "C10_resumes"],
    ["LRUTrie.webentity_inorder_iter", "Traph.paginate_webentity_pagelinks", "Traph.get_webentity_pagelinks_iter"],
    dict(cases=640, nops=(20, 40), time_cap=120, watchdog=1200, min_cases=60, w_random=3, w_shape=1, deep_n=1200),
    dict(cases=20000, nops=(25, 50, 90), time_cap=800, watchdog=3000, min_cases=400, w_random=3, w_shape=1, exhaustive_shapes=6, deep_n=1200),
)

PROPS["C17"] = {
    "engine": "purelaws",
    "rule": "exhaustive enumeration of the bounded C17 grammar (3 schemes x {no port, port} x host sequences of length 0..H over "
            "{com,a,www} not ending in two www x path sequences of length 0..P over {p:x, p:s:http, p:s:https, p:xs:http, p:h:www, "
            "p:h:, q:h:www}), each LRU through the contract-wrapped real lru_variations and Traph.expand_prefix (bytes and str): "
            "must not raise, prefix first, no entry twice, only scheme stem / trailing www host stem may differ, and every member's "
            "own expansion must be the same set; plus random grammar LRUs with binary path stems, and end-to-end: fresh indexes fed "
            "the same site through each variation first must end with the same prefixes under one id. distinct_nontrivial = number "
            "of distinct variation classes with >= 2 members observed.",
    "nontrivial": None,
    "deciding_counters": ["C17_lrus", "C17_closure_checks", "C17_end_to_end_sites", "contract_evals:helpers.lru_variations",
                          "contract_evals:traph.lru_variations(bound name)"],
    "anchors": ["lru_variations", "https_variation", "Traph.expand_prefix"],
    "quick": dict(max_hosts=3, max_paths=1, random=24000, e2e=160, shards=8, watchdog=1200, min_cases=500),
    "thorough": dict(max_hosts=3, max_paths=2, random=1200000, e2e=6000, shards=16, watchdog=3000, min_cases=5000),
    "level": "exploration",
    "assumptions": ["the enumerated grammar is bounded (H=3 hosts, P<=2 path stems from 7 values); longer LRUs are sampled only"],
}

def _life(profile, rule, nontrivial, deciding, anchors, quick, thorough):
    return {"engine": "lifecycle", "profile": profile, "rule": rule, "nontrivial": nontrivial, "deciding_counters": deciding,
            "anchors": anchors, "quick": quick, "thorough": thorough, "level": "exploration", "assumptions": []}


PROPS["C11"] = _life(
    dict(modes=("reopen", "reopen", "clear"), classes=("real", "real", "deep", "bin", "long"), long=True, pool=(10, 20, 30),
         weights={"add_page": 6, "add_pages": 2, "add_links": 4, "batch": 3, "create": 3, "delete": 1, "addp": 2, "rmp": 1, "mvp": 1, "rule": 2, "rmrule": 1}),
    "differential executions. reopen: a history runs on index A with close+reopen (same folder, rules re-supplied) inserted at "
    "1-4 random positions (thorough: at EVERY position of histories <= 25 requests, repeated reopens, reopen right after "
    "construction) and on a never-closed index B; after every request the write reports (incl. issued ids) must be equal and "
    "every k-th request the digests of the whole read-only battery, A is also audited against the model, and both files must be "
    "whole blocks after close. clear: after a prefix history, clear(default', rules') then H is compared the same way with a "
    "fresh index(default', rules') then H, on file and memory indexes. One big history per mode (2300+ pages in one webentity, "
    "hubs with 2000+ links queried before the clear, another big history over the same blocks after it). Non-trivial: >= 6 pages and >= 1 webentity at the end; "
    "distinct = (mode, final store bytes).",
    lambda f: f["pages"] >= 6 and f["we"] >= 1,
    ["battery_comparisons", "reports_compared", "C11_reopens", "C11_clears"],
    ["Traph.__init__", "Traph.close", "Traph.clear", "FileStorage.check_for_corruption", "LRUTrieHeader.read"],
    dict(cases=320, nops=(15, 30), audit_every=(3, 5), time_cap=150, watchdog=1200, min_cases=40, n_reopens=(1, 2, 4), big=2300),
    dict(cases=1200, nops=(12, 20, 25, 40, 80), audit_every=(1, 3, 5), time_cap=900, watchdog=3000, min_cases=200, n_reopens=(2, 4, 10, 16), every_position=True, big=5200),
)

PROPS["C15"] = _life(
    dict(modes=("memfile",), classes=("real", "long", "bin", "deep", "long"), long=True, pool=(10, 20, 30),
         weights={"add_page": 6, "add_pages": 2, "add_links": 4, "batch": 3, "create": 3, "delete": 1, "addp": 2, "rmp": 1, "mvp": 1, "rule": 2, "rmrule": 1}),
    "the same history (multi-block stems included, both overwrite settings, 0-3 construction-time rules) runs in lockstep on "
    "Traph(folder=None) and on a fresh folder: every write report, every exception and every k-th request the digests of the "
    "whole read-only battery must be equal, the final bytes of both stores must be identical, and every block read through "
    "FileStorage.map() must equal the block read through the storage. Non-trivial: >= 6 pages and >= 1 stem longer than one "
    "block or >= 1 construction-time rule; distinct = final store bytes. One big lockstep history (4300+ pages, 5000+ trie blocks).",
    lambda f: f["pages"] >= 6,
    ["battery_comparisons", "reports_compared", "C15_store_comparisons", "C15_mmap_blocks_compared"],
    ["MemoryStorage.read", "MemoryStorage.write", "FileStorage.read", "MemMapStorage.read", "FileStorage.map"],
    dict(cases=240, nops=(15, 30), audit_every=(3, 5), time_cap=150, watchdog=1200, min_cases=30, big=4300),
    dict(cases=1200, nops=(20, 40, 80), audit_every=(1, 3, 5), time_cap=900, watchdog=3000, min_cases=200, big=9000),
)

PROPS["C14"] = {
    "engine": "readonly",
    "profile": dict(classes=("real", "real", "deep", "bin", "long"), pool=(10, 20, 30),
                    weights={"add_page": 6, "add_pages": 2, "add_links": 5, "batch": 3, "create": 3, "delete": 1, "addp": 2, "rmp": 1, "mvp": 1, "rule": 2, "rmrule": 1}),
    "rule": "random states on both back-ends; at 2-3 points of each history the whole read-only battery (every read-only public method "
            "of Traph incl. iterator forms drained step by step, pagination walks, metrics, enumerations; present, partially present "
            "and absent LRUs, unknown webentity ids, prefixes not in the index, invalid switch combinations) runs inside the read-only "
            "window monitor: zero write events at the storage boundary (file proxy / MemoryStorage wrapper), checked after every "
            "iterator step, and unchanged SHA-256 of both stores around every call. Non-trivial: state with >= 6 pages, >= 1 "
            "webentity, >= 1 link; distinct = final store bytes. Also: the final state reopened the way the repository's inspection scripts do "
            "(debug=True, no rules) and with part of its rules; torn states; two scale states (2300+ pages in one webentity; a page "
            "whose link chains hold 66000 entries each) under the reduced battery.",
    "nontrivial": lambda f: f["pages"] >= 6 and f["we"] >= 1 and f["links"] >= 1,
    "deciding_counters": ["C14_windows", "C14_calls_succeeded", "C14_calls_refused_with_library_error", "C14_iterator_steps"],
    "anchors": ["LRUTrie.follow_lru", "LRUTrie.lru_node", "Traph.get_potential_prefix", "LRUTrieNode.write", "LRUTrie.add_lru"],
    "quick": dict(cases=128, nops=(15, 30), points=2, scale=2300, time_cap=150, watchdog=1200, min_cases=16),
    "thorough": dict(cases=4000, nops=(20, 40, 80), points=3, scale=5200, time_cap=900, watchdog=3000, min_cases=150),
    "level": "exploration",
    "assumptions": ["the list of read-only methods is explicit (vt/battery.py); an unclassified public method makes the run inconclusive",
                    "a foreign (non-library) exception in a query is counted, not judged: the statement covers success and library errors"],
}

PROPS["C18"] = {
    "engine": "crashcut",
    "profile": dict(classes=("real", "long", "real", "long", "bin"), pool=(6, 10, 14),
                    weights={"add_page": 6, "add_pages": 1, "add_links": 4, "batch": 3, "create": 2, "addp": 1, "rule": 2, "delete": 1, "rmrule": 1}),
    "rule": "histories of 5-40 requests (pages incl. multi-block stems so that main and tail blocks are separate writes, link batches, "
            "webentity creation, rule installation) recorded at the file boundary; EVERY cut of the program-ordered write log is "
            "explored: block granular, plus byte offsets inside each append (quick: first/middle/last byte; thorough: every byte), "
            "plus file-creation events; for each distinct pair of reconstructed files the folder is reopened (rules re-supplied) and "
            "must be refused with TraphException or answer the reduced battery without any foreign exception and report only pages "
            "(crawled only if crawled at the end) and per-direction link weights <= those of the complete history. The "
            "reconstruction is validated by re-running the history with a crash injected at a random write and comparing the files "
            "left on disk byte for byte. The complete files and one mid-history cut are also examined with either store missing. One scale "
            "history (a crawl batch whose source has 1100+ targets, 13000+ write events): every shard examines its own random sample of "
            "block-granular cuts. Non-trivial: history with >= 3 pages; distinct = final file bytes.",
    "nontrivial": lambda f: f["pages"] >= 3,
    "deciding_counters": ["C18_cuts", "C18_cuts_opened", "C18_cuts_refused", "C18_cuts_consistent", "C18_reconstructions_validated"],
    "anchors": ["Traph.__init__", "FileStorage.check_for_corruption", "LRUTrieNode.write", "LinkStore.add_links", "LRUTrie.add_lru"],
    "quick": dict(cases=48, nops=(5, 10, 16), byte_offsets=3, validate=1, scale=1100, scale_cuts=30, time_cap=200, watchdog=1200, min_cases=8),
    "thorough": dict(cases=400, nops=(5, 12, 20, 40), byte_offsets="all", validate=3, scale=2300, scale_cuts=120, time_cap=1000, watchdog=3000, min_cases=60),
    "level": "fault_enumeration",
    "level_text": "Exhaustive enumeration of crash points per recorded history (every logged write, every byte of every append) under the "
                  "statement's fault model; the histories themselves are sampled.",
    "assumptions": ["fault model of the statement: program-order prefix of the write log, both files cut at the same point, in-place "
                    "block rewrites atomic; reordering by the OS page cache is outside the property"],
}

PROPS["C16"] = {
    "engine": "scheduler",
    "rule": "programs of 2-3 concurrent iterator requests (1-2 index_batch_crawl_iter with overlapping pages, "
            "add_webentity_creation_rule_iter, one query iterator among pages / crawled pages / most-linked / child webentities / "
            "pagelinks / cited / citing / network fast+slow in both directions) on a fresh index each time, with "
            "TraphIteratorState.should_yield forced to True so every loop iteration is a scheduling point; random schedules "
            "(uniform, sticky, bursty) and, for a share of the programs, ALL interleavings by stateless depth-first search. After "
            "every step the raw bytes are decoded to get the qualifying items of the running query; oracles: no request raises, "
            "final pages/crawled marks/link multigraph = batches applied sequentially (model), S1-S7 incl. inbound/outbound "
            "symmetry, query answer within [qualified at every moment, qualified at some moment]. A schedule is non-trivial when it "
            "has >= 4 steps and actually alternates between >= 2 requests; distinct = distinct (program, schedule). One scale program (a batch "
            "in which 1100+ sources cite one page and one page has 1100+ targets, with two small batches citing / crawling those pages): the "
            "small batches are inserted whole at every (quick: every other) yield point of the big one, plus randomly delayed step-wise "
            "interleavings; final-state and structural oracles only.",
    "nontrivial": None,
    "deciding_counters": ["C16_schedules", "C16_final_state_checks", "C16_query_brackets", "C16_query_windows_with_state_change"],
    "anchors": ["Traph.index_batch_crawl_iter", "Traph.add_webentity_creation_rule_iter", "TraphIteratorState.should_yield",
                "Traph.get_webentities_links_iter", "Traph.get_webentity_pages_iter", "LRUTrieNode.refresh"],
    "quick": dict(programs=260, scale=1100, scale_schedules=6, scale_stride=2, schedules_per_program=10, exhaustive_limit=400, exhaustive_share=0.1, max_sources=3, max_targets=3,
                  time_cap=100, watchdog=1200, min_cases=250),
    "thorough": dict(programs=3000, scale=2300, scale_schedules=60, scale_stride=1, schedules_per_program=24, exhaustive_limit=20000, exhaustive_share=0.3, max_sources=3, max_targets=4,
                     time_cap=1000, watchdog=3000, min_cases=8000),
    "level": "exploration",
    "assumptions": ["schedules are explored at the forced yield points of the existing generator structure; preemptive threads are out of scope (the code has none)",
                    "network queries: an aggregated pair whose two ends never resolved simultaneously (cross-moment aggregate) is inside the upper bracket by construction and therefore not judged"],
}

# properties deliberately not claimed (none so far): id -> reason
NOT_APPLICABLE = {}
