# False-alarm audit - NOT a registered check.  Applies property-PRESERVING
# variants of the library (refactorings a maintainer could make without breaking
# any of C01-C20) to a scratch copy and runs the quick checks: every check must
# stay silent (exit 0).  An alarm here means a check demands more than its
# property states.
#   /venv/bin/python -m vt.neutral_audit [--only name,...] [--props C01,...] [--jobs N]
import argparse
import json
import os
import sys
from concurrent.futures import ThreadPoolExecutor

from .mutation_audit import evaluate, ALL
from .util import VERIF, REPO

T = "traph/traph.py"
L = "traph/lru_trie/lru_trie.py"
N = "traph/lru_trie/node.py"
K = "traph/link_store/link_store.py"
H = "traph/helpers.py"
V = []


def var(name, edits, why):
    V.append({"name": name, "edits": edits, "why": why})


var("create-validates-before-inserting", [(T, '''        for prefix in prefixes:
            node, history = self.lru_trie.add_lru(
                prefix, flag_can_have_child_webentities=True
            )

            if node.has_webentity():''', '''        if not use_best_case:
            # refuse before touching the trie
            for prefix in prefixes:
                known = self.lru_trie.lru_node(prefix)
                if known and known.has_webentity():
                    raise TraphException(
                        "Some prefixes were already set: %s" % ([prefix])
                    )

        for prefix in prefixes:
            node, history = self.lru_trie.add_lru(
                prefix, flag_can_have_child_webentities=True
            )

            if node.has_webentity():''')],
    "a refused create_webentity no longer stores the other prefixes of its list; no statement requires that it does")

var("ids-skip-every-other", [(T, "        header.increment_last_webentity_id()\n        header.write()\n",
                              "        header.increment_last_webentity_id_by(2)\n        header.write()\n")],
    "ids stay fresh and increasing (C12) but are not consecutive")

var("count-links-returns-int", [(K, "        return blocks / 2\n", "        return int(blocks // 2)\n")],
    "same number, integer type")

var("dfs-visits-left-before-right", [(L, '''            if starting_from_root or block != starting_block:
                if node.has_right():
                    stack.append((node.right(), lru))

                if node.has_left():
                    stack.append((node.left(), lru))
''', '''            if starting_from_root or block != starting_block:
                if node.has_left():
                    stack.append((node.left(), lru))

                if node.has_right():
                    stack.append((node.right(), lru))
''')], "full traversal yields the same set in another order (order unspecified)")

var("webentity-pages-sorted", [(T, '''            if state.should_yield(2000):
                yield state

        yield state.finalize(pages)

    def get_webentity_pages(self, weid, prefixes):''', '''            if state.should_yield(2000):
                yield state

        pages.sort(key=lambda p: p["lru"])
        yield state.finalize(pages)

    def get_webentity_pages(self, weid, prefixes):''')], "unpaginated page listing in another order")

var("link-weights-sorted", [(K, "        for target, weight in weights.items():\n            yield target, weight\n",
                               "        for target, weight in sorted(weights.items()):\n            yield target, weight\n")],
    "weighted link enumeration in another order")

var("add-links-inserts-target-first", [(T, '''            # Adding pages
            if source_page not in pages:
                node, page_report = self.__add_page(source_page)
                report += page_report
                pages[source_page] = node
            if target_page not in pages:
                node, page_report = self.__add_page(target_page)
                report += page_report
                pages[target_page] = node
''', '''            # Adding pages
            if target_page not in pages:
                node, page_report = self.__add_page(target_page)
                report += page_report
                pages[target_page] = node
            if source_page not in pages:
                node, page_report = self.__add_page(source_page)
                report += page_report
                pages[source_page] = node
''')], "pages of one request inserted in another order: ids of webentities created inside one request come in another order")

var("header-rewritten-on-every-page", [(T, '''    def __add_page(self, lru, crawled=False):
        node, history = self.lru_trie.add_page(lru, crawled=crawled)
''', '''    def __add_page(self, lru, crawled=False):
        node, history = self.lru_trie.add_page(lru, crawled=crawled)
        self.lru_trie.header.write()
''')], "an extra idempotent in-place header write in a write request")

var("outlinks-without-none", [(T, '''                            done_blocks.add(target_node.block)
                            weids.add(target_webentity)

                        if state.should_yield(5000):
                            yield state

        yield state.finalize(weids)

    def get_webentity_outlinks(self, weid, prefixes):''', '''                            done_blocks.add(target_node.block)
                            if target_webentity is not None:
                                weids.add(target_webentity)

                        if state.should_yield(5000):
                            yield state

        yield state.finalize(weids)

    def get_webentity_outlinks(self, weid, prefixes):''')],
    "the cited set no longer contains the None placeholder for unresolved targets (C08 speaks of webentities only)")

var("most-linked-ties-other-way", [(T, "                    heapq.heappush(pages, (indegree, c, lru))\n", "                    heapq.heappush(pages, (indegree, -c, lru))\n")],
    "ties between equal indegrees broken the other way")

var("child-flag-cleared-eagerly", [(L, '''            # Flagging for underlying webentities
            if (
                i < l - 1
                and flag_can_have_child_webentities
                and not node.can_have_child_webentities()
            ):''', '''            # Flagging for underlying webentities
            if (
                i < l - 1
                and not node.can_have_child_webentities()
            ):''')], "the pruning mark is cleared on every walk, not only for prefixes (pruning less, never hiding)")

var("token-separator-changed", [(H, '    return "%i#%s" % (i, int_to_base64(path))\n', '    return "%i~%s" % (i, int_to_base64(path))\n'),
                                 (H, '    i, b64_path = token.split("#")\n', '    i, b64_path = token.split("~")\n')],
    "tokens are opaque: another text encoding that still round-trips")

var("potential-prefix-via-retrieve", [(T, '''        # If the longest rules prefix is shorter than the webentity prefix, or there is no rules prefix
        if len(longest_candidate_prefix) <= history.webentity_position:
            return history.webentity_prefix
''', '''        # If the longest rules prefix is shorter than the webentity prefix, or there is no rules prefix
        if len(longest_candidate_prefix) <= history.webentity_position:
            return bytes(history.webentity_prefix)
''')], "same value, copied")

var("page-links-as-tuples", [(T, "                    pagelinks.append([source_lru, lru, weight])\n\n        return pagelinks\n", "                    pagelinks.append([source_lru, lru, weight])\n\n        return [tuple(x) for x in pagelinks]\n")],
    "get_page_links returns tuples instead of lists")

var("batch-yields-after-every-source", [(T, "            source_node.refresh()\n            store.add_outlinks(source_node, target_blocks)\n",
                                        "            source_node.refresh()\n            store.add_outlinks(source_node, target_blocks)\n\n            if state.should_yield(yield_frequency):\n                yield state\n")],
    "one more scheduling point in the crawl-batch request (after a source is completely written)")

var("header-rewritten-at-open", [("traph/lru_trie/header.py", "        self.__ensure()\n        self.read()\n", "        self.__ensure()\n        self.read()\n        self.write()\n")],
    "opening an index rewrites its header block with the bytes it already holds")

var("inlinks-before-outlinks", [(T, """        for source_page, target_pages in outlinks.items():
            source_node = pages[source_page]

            # Refreshing node's data
            source_node.refresh()
            target_blocks = (pages[target_page].block for target_page in target_pages)
            store.add_outlinks(source_node, target_blocks)

        for target_page, source_pages in inlinks.items():
            target_node = pages[target_page]

            # Refreshing node's data
            target_node.refresh()
            source_blocks = (pages[source_page].block for source_page in source_pages)
            store.add_inlinks(target_node, source_blocks)
""", """        for target_page, source_pages in inlinks.items():
            target_node = pages[target_page]

            # Refreshing node's data
            target_node.refresh()
            source_blocks = (pages[source_page].block for source_page in source_pages)
            store.add_inlinks(target_node, source_blocks)

        for source_page, target_pages in outlinks.items():
            source_node = pages[source_page]

            # Refreshing node's data
            source_node.refresh()
            target_blocks = (pages[target_page].block for target_page in target_pages)
            store.add_outlinks(source_node, target_blocks)
""")], "add_links writes the inbound lists before the outbound ones")

var("potential-prefix-none-instead-of-false", [(T, """                'Default rule failed to find a prefix for "%s"!' % lru, RuntimeWarning
            )
            return False
""", """                'Default rule failed to find a prefix for "%s"!' % lru, RuntimeWarning
            )
            return None
""")], "'no potential prefix' reported as None instead of False")

var("network-as-plain-dicts", [(T, """                if state.should_yield(5000):
                    yield state

        yield state.finalize(graph)

    def get_webentities_inlinks_iter""", """                if state.should_yield(5000):
                    yield state

        yield state.finalize({k: dict(v) for k, v in graph.items()})

    def get_webentities_inlinks_iter""")], "the fast network is returned as plain dicts")

var("variations-as-tuple", [(T, "        return lru_variations(prefix)\n", "        return tuple(lru_variations(prefix))\n")],
    "expand_prefix returns a tuple")

var("node-read-gains-a-parameter", [(N, "    def read(self, block):\n        data = self.storage.read(block)\n", "    def read(self, block, with_tail=True):\n        data = self.storage.read(block)\n"),
                                    (N, "    def refresh(self):\n        self.read(self.block)\n", "    def refresh(self):\n        self.read(self.block, with_tail=True)\n")],
    "an internal method wrapped by the monitors grows a keyword parameter (monitor wrappers must be signature-agnostic)")

var("storage-write-keyword", [(N, "        block = self.storage.write(self.pack(), self.block)\n", "        block = self.storage.write(data=self.pack(), block=self.block)\n")],
    "storage.write called with keyword arguments")


var("file-storage-on-pread-pwrite", [("traph/storage/file.py", """    def __len__(self):
        self.file.seek(0, os.SEEK_END)
        return self.file.tell()
""", """    def __len__(self):
        return os.fstat(self.file.fileno()).st_size
"""), ("traph/storage/file.py", """    def read(self, block=None):
        if block is not None:
            self.file.seek(block)

        data = self.file.read(self.block_size)

        return data or None
""", """    def read(self, block=None):
        # Like a sequential reader, reading without a block continues after the last read
        if block is None:
            block = getattr(self, "cursor", 0)

        self.cursor = block + self.block_size
        data = os.pread(self.file.fileno(), self.block_size, block)

        return data or None
"""), ("traph/storage/file.py", """        if block is not None:
            self.file.seek(block)
        else:
            self.file.seek(0, os.SEEK_END)

        self.file.write(data)

        # TODO: can be avoided if we do not append
        block = self.file.tell() - self.block_size

        return block
""", """        fd = self.file.fileno()

        if block is None:
            block = os.fstat(fd).st_size

        os.pwrite(fd, data, block)

        return block
""")], "the file back-end reads and writes with os.pread / os.pwrite on the descriptor (no seek, no user-space buffer): same bytes at the same offsets")


var("store-files-opened-through-pathlib", [(T, """            self.lru_trie_file = open(self.lru_trie_path, flags)
            self.link_store_file = open(self.link_store_path, flags)
""", """            import pathlib

            self.lru_trie_file = pathlib.Path(self.lru_trie_path).open(flags)
            self.link_store_file = pathlib.Path(self.link_store_path).open(flags)
""")], "the two store files are opened with pathlib.Path.open instead of the builtin open (the file-boundary monitors must still see them)")


def apply_variant(v):
    def f(copy):
        for file, old, new in v["edits"]:
            p = os.path.join(copy, file)
            s = open(p).read()
            if s.count(old) != 1:
                raise RuntimeError("variant %s: pattern occurs %d times in %s" % (v["name"], s.count(old), file))
            open(p, "w").write(s.replace(old, new))
    return f


def main():
    ap = argparse.ArgumentParser()
    ap.add_argument("--only")
    ap.add_argument("--props")
    ap.add_argument("--jobs", type=int, default=2)
    ap.add_argument("--shards", type=int, default=6)
    ap.add_argument("--tier", default="quick")
    ap.add_argument("--out", default=os.path.join(VERIF, "neutral_results.json"))
    a = ap.parse_args()
    vs = [v for v in V if not a.only or v["name"] in a.only.split(",")]
    props = a.props.split(",") if a.props else ALL

    def job(v):
        r = evaluate(v["name"], apply_variant(v), props, a.tier, a.shards)
        r["why_neutral"] = v["why"]
        alarms = [p for p, c in r.get("checks", {}).items() if c["rc"] != 0]
        print("%-40s repo tests:%s  alarms=%s %s" % (v["name"], "pass" if r.get("survives_repo_tests") else "FAIL", alarms, r.get("error", "")), flush=True)
        for p in alarms:
            print("     %s rc=%s %s" % (p, r["checks"][p]["rc"], r["checks"][p]["witness"][:300]), flush=True)
        return r

    with ThreadPoolExecutor(a.jobs) as ex:
        results = list(ex.map(job, vs))
    with open(a.out, "w") as f:
        json.dump({"tier": a.tier, "results": results}, f, indent=1)
    bad = [(r["name"], [p for p, c in r.get("checks", {}).items() if c["rc"] != 0]) for r in results]
    bad = [b for b in bad if b[1]]
    print("neutral variants: %d, with alarms: %s" % (len(results), bad))
    return 0


if __name__ == "__main__":
    sys.exit(main())
