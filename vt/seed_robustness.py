# How robust is the detection of each seeded change against the choice of
# VERIF_SEED?  For every seeded/<id>/ : patched scratch copy, then the quick
# check of the property it breaks under several seeds.  Not a registered check.
#   /venv/bin/python -m vt.seed_robustness [--seeds 1,2,3] [--only id,...] [--jobs N] [--out file]
import argparse
import glob
import json
import os
import shutil
import sys
import tempfile
from concurrent.futures import ThreadPoolExecutor

from .mutation_audit import make_copy, apply_patch, run_check
from .util import VERIF


def main():
    ap = argparse.ArgumentParser()
    ap.add_argument("--seeds", default="1,2,3")
    ap.add_argument("--only")
    ap.add_argument("--jobs", type=int, default=3)
    ap.add_argument("--shards", type=int, default=5)
    ap.add_argument("--out", default=os.path.join(VERIF, "seed_robustness.json"))
    a = ap.parse_args()
    seeds = [int(x) for x in a.seeds.split(",")]
    metas = []
    for p in sorted(glob.glob(os.path.join(VERIF, "seeded", "*", "meta.json"))):
        m = json.load(open(p))
        if a.only and m["seed_id"] not in a.only.split(","):
            continue
        metas.append((m["seed_id"], m["breaks_property"], os.path.join(os.path.dirname(p), "patch.diff")))

    def job(x):
        sid, prop, patch = x
        tmp = tempfile.mkdtemp(prefix="vt-rob-")
        res = {"seed_id": sid, "property": prop, "runs": {}}
        try:
            copy = os.path.join(tmp, "repo")
            make_copy(copy)
            apply_patch(os.path.abspath(patch))(copy)
            for s in seeds:
                env_seed = str(s)
                r = run_check_seed(copy, prop, tmp, a.shards, env_seed)
                res["runs"][env_seed] = {"rc": r["rc"], "s": r["s"]}
        except Exception as e:
            res["error"] = repr(e)
        finally:
            shutil.rmtree(tmp, ignore_errors=True)
        caught = [s for s, r in res["runs"].items() if r["rc"] == 1]
        print("%-14s %s caught under seeds %s of %s %s" % (sid, prop, caught, list(res["runs"]), res.get("error", "")), flush=True)
        return res

    with ThreadPoolExecutor(a.jobs) as ex:
        results = list(ex.map(job, metas))
    with open(a.out, "w") as f:
        json.dump({"seeds": seeds, "results": results}, f, indent=1)
    weak = [(r["seed_id"], [s for s, x in r["runs"].items() if x["rc"] != 1]) for r in results]
    weak = [w for w in weak if w[1]]
    print("seeded changes: %d; not caught under some VERIF_SEED: %s" % (len(results), weak))


def run_check_seed(copy, prop, tmp, shards, seed):
    import subprocess
    import time
    env = dict(os.environ, REPO=copy, VERIF_EVIDENCE_DIR=os.path.join(tmp, "ev"), VERIF_REPLAY_DIR=os.path.join(tmp, "rp"),
               PYTHONDONTWRITEBYTECODE="1", PYTHONHASHSEED="0", VERIF_SEED=seed)
    t0 = time.time()
    p = subprocess.run(["/venv/bin/python", "-m", "vt.runner", prop, "--tier", "quick", "--shards", str(shards)], cwd=VERIF, env=env,
                       capture_output=True, text=True, timeout=3000)
    return {"rc": p.returncode, "s": round(time.time() - t0, 1)}


if __name__ == "__main__":
    sys.exit(main())
