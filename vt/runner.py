# Parent process of every check: fans out shard subprocesses, merges their
# results, applies the known-findings file, writes evidence, prints verdict.
#   exit 0 held on everything explored / 1 VIOLATION / 2 INCONCLUSIVE
import argparse
import hashlib
import json
import os
import shutil
import subprocess
import sys
import tempfile
import time
from collections import Counter

from .util import VERIF, REPO, jdump_file, jload_file

PY = "/venv/bin/python" if os.path.exists("/venv/bin/python") else sys.executable
NCPU = min(16, os.cpu_count() or 4)


def load_known():
    p = os.path.join(VERIF, "known_findings.json")
    if not os.path.exists(p):
        return []
    with open(p) as f:
        return json.load(f).get("findings", [])


def shard_env():
    env = dict(os.environ)
    env["REPO"] = REPO
    env["PYTHONHASHSEED"] = "0"
    env["PYTHONDONTWRITEBYTECODE"] = "1"
    env["PYTHONPATH"] = VERIF
    env["HYPHE_TRAPH_VERIF"] = "1"
    return env


def run_shards(prop, tier, seed, nshards, timeout, extra=None, soft=None):
    """Start nshards subprocesses of vt.shard; returns list of (result|None, why)."""
    scratch = tempfile.mkdtemp(prefix="vt-%s-" % prop)
    procs = []
    for i in range(nshards):
        outp = os.path.join(scratch, "shard%d.json" % i)
        cmd = [PY, "-X", "faulthandler", "-m", "vt.shard", prop, tier, str(seed), str(i), str(nshards), outp, scratch]
        if extra:
            cmd += extra
        lg = open(os.path.join(scratch, "shard%d.log" % i), "w")
        procs.append((i, outp, lg, subprocess.Popen(cmd, cwd=VERIF, env=shard_env(), stdout=lg, stderr=subprocess.STDOUT)))
    results = {}
    t0 = time.time()
    deadline = t0 + timeout
    pending = {i: (outp, lg, p) for i, outp, lg, p in procs}
    witnessed = False
    while pending:
        for i in list(pending):
            outp, lg, p = pending[i]
            if p.poll() is None:
                continue
            del pending[i]
            lg.close()
            if p.returncode != 0 or not os.path.exists(outp):
                tail = open(os.path.join(scratch, "shard%d.log" % i)).read()[-1500:]
                results[i] = (partial_result(outp), "shard %d died (rc=%s): %s" % (i, p.returncode, tail))
                continue
            results[i] = (jload_file(outp), None)
            if results[i][0].get("violations"):
                witnessed = True
        if not pending:
            break
        now = time.time()
        if not witnessed and any(os.path.exists(pending[i][0] + ".partial") for i in pending):
            witnessed = True
        # the watchdog guards against hangs on a healthy tree and is generous; once a violation has been witnessed
        # (a damaged index can make a library traversal loop for ever) the stragglers get a short grace period only
        if now > deadline or (witnessed and soft and now > t0 + soft):
            for i in list(pending):
                outp, lg, p = pending.pop(i)
                p.kill()
                p.wait()
                lg.close()
                why = "shard %d hit the %ds watchdog" % (i, timeout) if now > deadline else \
                    "shard %d stopped %ds after the start: a violation had already been witnessed" % (i, int(now - t0))
                results[i] = (partial_result(outp), why)
            break
        time.sleep(0.25)
    results = [results[i] for i in sorted(results)]
    shutil.rmtree(scratch, ignore_errors=True)
    return results


def partial_result(outp):
    """Violations a shard witnessed (and saved) before it was killed or died: still violations."""
    side = outp + ".partial"
    if not os.path.exists(side):
        return None
    from .util import jloads

    vs = []
    for line in open(side):
        line = line.strip()
        if line:
            try:
                vs.append(jloads(line))
            except Exception:
                pass
    return {"violations": vs, "partial": True} if vs else None


def merge(results):
    tot = {
        "cases": 0, "counters": Counter(), "violations": [], "known": [], "samples": [],
        "digests": set(), "notes": [], "inconclusive": [], "monitors": {}, "reach": Counter(), "lines": {},
        "exhaustive": None,
    }
    for r, why in results:
        if why:
            tot["inconclusive"].append(why)
        if r is None:
            continue
        tot["cases"] += r.get("cases", 0)
        tot["counters"].update(r.get("counters", {}))
        tot["violations"] += r.get("violations", [])
        tot["known"] += r.get("known", [])
        if len(tot["samples"]) < 4:
            tot["samples"] += r.get("samples", [])[:2]
        tot["digests"].update(r.get("nontrivial", []))
        tot["notes"] += r.get("notes", [])
        tot["inconclusive"] += r.get("inconclusive", [])
        tot["monitors"].update(r.get("monitors", {}))
        tot["reach"].update(r.get("reach", {}))
        for f, ls in r.get("lines", {}).items():
            tot["lines"].setdefault(f, set()).update(ls)
        if "exhaustive" in r:
            tot["exhaustive"] = r["exhaustive"] if tot["exhaustive"] in (None, True) else False
    return tot


def main(argv=None):
    ap = argparse.ArgumentParser()
    ap.add_argument("prop")
    ap.add_argument("--tier", default=os.environ.get("VERIF_TIER", "quick"), choices=["quick", "thorough"])
    ap.add_argument("--replay")
    ap.add_argument("--shards", type=int, default=None)
    a = ap.parse_args(argv)
    from . import props as P

    prop = a.prop
    spec = P.PROPS[prop]
    seed = int(os.environ.get("VERIF_SEED", "0") or 0)
    t0 = time.time()
    if a.replay:
        from .shard import replay

        ds = replay(prop, a.replay)
        viol = [d for d in ds if prop in d["props"] and not d["kind"].startswith("KNOWN:")]
        for d in ds:
            print(json.dumps(d, default=repr)[:1500])
        if viol:
            print("VIOLATION property=%s replay=%s" % (prop, a.replay))
            return 1
        print("replay: no violation of %s" % prop)
        return 0
    tier = spec[a.tier]
    nshards = a.shards or tier.get("shards", NCPU)
    results = run_shards(prop, a.tier, seed, nshards, int(os.environ.get("VERIF_WATCHDOG") or tier.get("watchdog", 900)),
                         soft=2 * tier.get("time_cap", 300) + 60)
    tot = merge(results)
    # thorough tier: the monitors also ride on the repository's own tests
    from .engines import ride as R

    if a.tier == "thorough" and prop in R.RIDE_PROPS:
        rr = R.ride(prop)
        if "error" in rr:
            tot["inconclusive"].append("ride on repository tests: " + rr["error"])
        else:
            tot["counters"].update({"ride:" + k: v for k, v in rr["stats"].items()})
            if rr.get("pytest_rc"):
                tot["notes"].append("repository tests exited %s under the riding monitors" % rr["pytest_rc"])
            for v in rr["violations"]:
                if prop not in v["props"]:
                    if "HARNESS" in v["props"]:
                        tot["inconclusive"].append("ride auditor: %s" % json.dumps(v["detail"])[:300])
                    continue
                if v["kind"].startswith("KNOWN:"):
                    tot["known"].append({"mechanism": v["kind"][6:], "detail": v["detail"], "case": "ride"})
                    continue
                os.makedirs(os.path.join(VERIF, "replays"), exist_ok=True)
                cf = os.path.join(os.environ.get("VERIF_REPLAY_DIR") or os.path.join(VERIF, "replays"), "%s-ride.json" % prop)
                jdump_file({"engine": "ride", "violation": v}, cf)
                tot["violations"].append({"discrepancy": v, "case": "ride", "case_file": cf})
            tot["cases"] += rr["stats"].get("states_audited_on_repo_tests", 0) if prop != "C14" else rr["stats"].get("C14_windows_on_repo_tests", 0)
    wall = time.time() - t0
    # ---- known findings
    known = [k for k in load_known() if k.get("property") == prop and k.get("status") == "known"]
    mech_known = {k["mechanism"] for k in known}
    printed = set()
    real_viol = []
    for v in tot["violations"]:
        real_viol.append(v)
    known_hits = Counter()
    for kf in tot["known"]:
        mech = kf["mechanism"]
        if mech in mech_known:
            known_hits[mech] += 1
        else:
            # a classifier matched a mechanism that is not (or no longer) listed: violation
            real_viol.append(kf.get("as_violation") or {"case_file": kf.get("case_file"), "discrepancy": kf})
    for k in known:
        if known_hits[k["mechanism"]]:
            print("KNOWN-FINDING: property=%s %s (observed %d times this run)" % (prop, k["description"], known_hits[k["mechanism"]]))
    # ---- evidence
    minimum = tier.get("min_cases", 1)
    reached = [c for c in spec.get("deciding_counters", []) if tot["monitors"].get("optional:" + c) != "absent"]
    missing = [c for c in reached if tot["counters"].get(c, 0) == 0]
    inconclusive = list(tot["inconclusive"])
    if tot["cases"] < minimum:
        inconclusive.append("only %d cases completed, minimum is %d" % (tot["cases"], minimum))
    if missing:
        inconclusive.append("deciding oracle never evaluated: %s" % ",".join(missing))
    nontrivial = len(tot["digests"])
    if nontrivial < 2 and not real_viol:
        inconclusive.append("fewer than 2 distinct non-trivial cases")
    cov = {
        "evaluations": int(tot["cases"]),
        "distinct_nontrivial": int(nontrivial),
        "rule": spec["rule"],
        "samples": tot["samples"][:4] or ["(none)"],
        "oracle_evaluations": {k: int(v) for k, v in sorted(tot["counters"].items())},
        "monitors": tot["monitors"],
        "anchor_function_entries": {k: int(v) for k, v in sorted(tot["reach"].items())},
        "known_findings_observed": dict(known_hits),
        "notes": tot["notes"][:20],
        "inconclusive_reasons": inconclusive,
        "shards": nshards,
    }
    if tot["exhaustive"] is not None:
        cov["exhaustive"] = bool(tot["exhaustive"])
    if tot["lines"]:
        from . import monitors as M
        from .util import REPO

        ex = M.executable_lines(REPO)
        lib = {}
        for f, want in sorted(ex.items()):
            if not want:
                continue
            got = tot["lines"].get(f, set()) & want
            lib[f] = {"function_lines": len(want), "executed": len(got), "never_executed": sorted(want - got)}
        cov["library_lines"] = lib
    ev = {
        "property_id": prop,
        "tier": a.tier,
        "seed": seed,
        "level": spec["level"],
        "coverage": cov,
        "assumptions": spec.get("assumptions", []) + P.COMMON_ASSUMPTIONS,
        "wall_s": round(wall, 2),
        "violations": len(real_viol),
    }
    evdir = os.environ.get("VERIF_EVIDENCE_DIR") or os.path.join(VERIF, "evidence")
    os.makedirs(evdir, exist_ok=True)
    jdump_file(ev, os.path.join(evdir, prop + ".json"))
    print("%s tier=%s seed=%d: %d cases, %d distinct non-trivial, %d oracle evaluations, %.1fs" % (
        prop, a.tier, seed, tot["cases"], nontrivial, sum(tot["counters"].values()), wall))
    if real_viol:
        seen = set()
        for v in real_viol[:10]:
            path = v.get("case_file") or "(none)"
            d = v.get("discrepancy", {})
            key = (d.get("kind"), path)
            if key in seen:
                continue
            seen.add(key)
            print("  witness: %s" % json.dumps(d, default=repr)[:900])
            print("VIOLATION property=%s replay=%s" % (prop, path))
        return 1
    if inconclusive:
        for r in inconclusive[:5]:
            print("INCONCLUSIVE property=%s reason=%s" % (prop, str(r)[:600]))
        return 2
    print("HELD property=%s on everything explored" % prop)
    return 0


if __name__ == "__main__":
    sys.exit(main())
