# Blind-spot report - NOT a registered check.  Unions the library lines that the
# last run of every check executed (evidence/*.json, coverage.library_lines) and
# lists the function-body lines of traph/* that NO check reached: what the
# monitors say nothing about.   /venv/bin/python -m vt.linecov [--source]
import glob
import json
import os
import sys

from .util import VERIF, REPO


def main():
    never = None
    totals = {}
    used = []
    for p in sorted(glob.glob(os.path.join(os.environ.get("VERIF_EVIDENCE_DIR") or os.path.join(VERIF, "evidence"), "C*.json"))):
        ev = json.load(open(p))
        lib = ev.get("coverage", {}).get("library_lines")
        if not lib:
            continue
        used.append("%s(%s)" % (ev["property_id"], ev["tier"]))
        cur = {f: set(v["never_executed"]) for f, v in lib.items()}
        for f, v in lib.items():
            totals[f] = v["function_lines"]
        if never is None:
            never = cur
        else:
            for f in list(never):
                never[f] &= cur.get(f, set())
    if never is None:
        print("no evidence with library_lines")
        return 2
    print("union over: %s" % " ".join(used))
    tot = miss = 0
    for f in sorted(never):
        tot += totals[f]
        miss += len(never[f])
        print("%-34s %4d function lines, %3d never executed by any check: %s" % (f, totals[f], len(never[f]), sorted(never[f])))
        if "--source" in sys.argv and never[f]:
            src = open(os.path.join(REPO, f)).read().split("\n")
            for ln in sorted(never[f]):
                print("      %4d  %s" % (ln, src[ln - 1]))
    print("total: %d of %d function-body lines executed (%.1f%%)" % (tot - miss, tot, 100.0 * (tot - miss) / tot))
    return 0


if __name__ == "__main__":
    sys.exit(main())
