# Independent decoder of the two stores + structural invariants S1-S7
# (DESIGN.md 2.4).  Parses raw bytes at fixed offsets; shares no code with traph.
#
# Layout (x86-64, native struct alignment of "75pBI6Q" / "QQ"):
#   trie block 128 B: [0] stem length, [1..74] stem bytes, [75] flags,
#     [76..79] webentity u32, [80..127] left,right,child,parent,outlinks,inlinks u64
#   trie header (block 0): [0..3] last webentity id u32, [4..15] version pascal
#   link block 16 B: target u64, previous u64 ; header block 0: version pascal
import struct
from collections import Counter

TB = 128
LB = 16
PAGE, CRAWLED, LINKED, DELETED, RULE, HAS_TAIL, IS_TAIL, NOCHILD = range(8)


class Decoded(object):
    __slots__ = (
        "errors", "lrus", "pages", "we", "rules", "nochild", "out", "inn",
        "last_id", "blocks", "tail_blocks", "main_blocks", "link_blocks",
        "stub_count", "shapes", "stray_tail_blocks", "maxdepth",
    )


def F(flags, bit):
    return (flags >> bit) & 1


def decode(tbuf, lbuf, tolerate_truncated_tail=False):
    """Return a Decoded; .errors lists (code, text) for every broken invariant."""
    d = Decoded()
    E = d.errors = []
    d.lrus = {}
    d.pages = {}
    d.we = {}
    d.rules = set()
    d.nochild = {}
    d.out = Counter()
    d.inn = Counter()
    d.last_id = None
    d.shapes = Counter()
    d.stray_tail_blocks = []
    d.maxdepth = 0
    tbuf = bytes(tbuf)
    lbuf = bytes(lbuf)
    if len(tbuf) % TB:
        E.append(("S1", "trie length %d not a multiple of %d" % (len(tbuf), TB)))
    if len(lbuf) % LB:
        E.append(("S1", "link length %d not a multiple of %d" % (len(lbuf), LB)))
    n = len(tbuf) // TB
    m = len(lbuf) // LB
    d.blocks = n
    d.link_blocks = m
    d.tail_blocks = 0
    d.main_blocks = 0
    d.stub_count = max(0, m - 1)
    if n < 1:
        E.append(("S1", "trie header block missing"))
        return d
    if m < 1:
        E.append(("S1", "link header block missing"))
    d.last_id = struct.unpack_from("<I", tbuf, 0)[0]
    bl = [None] * n
    for i in range(1, n):
        b = tbuf[i * TB : (i + 1) * TB]
        ln = b[0]
        if ln > 74:
            E.append(("S2", "stem length byte %d > 74 in block %d" % (ln, i)))
            ln = 74
        bl[i] = (
            b[1 : 1 + ln],
            b[75],
            struct.unpack_from("<I", b, 76)[0],
        ) + struct.unpack_from("<6Q", b, 80)
    # ---- tails (S3 part 1)
    full = {}
    i = 1
    while i < n:
        stem, fl = bl[i][0], bl[i][1]
        if F(fl, IS_TAIL):
            d.stray_tail_blocks.append(i)
            d.tail_blocks += 1
            i += 1
            continue
        j = i
        cur = bl[i]
        truncated = False
        while F(cur[1], HAS_TAIL):
            j += 1
            if j >= n:
                truncated = True
                if not tolerate_truncated_tail:
                    E.append(("S3", "tail chain of block %d runs past end of store" % i))
                break
            cur = bl[j]
            if not F(cur[1], IS_TAIL):
                E.append(("S3", "block %d follows has-tail block but is not flagged tail" % j))
                j -= 1
                break
            if cur[2] or any(cur[3:9]):
                E.append(("S3", "tail block %d carries pointers or a webentity" % j))
            stem += cur[0]
            d.tail_blocks += 1
        full[i] = stem
        i = (j + 1) if not truncated else n
    if d.stray_tail_blocks:
        E.append(("S3-stray", "unreferenced tail blocks %s" % d.stray_tail_blocks[:6]))
    mains = set(full)
    d.main_blocks = len(mains)

    def ptr(v, what, src):
        if v == 0:
            return None
        if v % TB or v // TB >= n or (v // TB) not in mains:
            E.append(("S2", "bad %s pointer %d in block %d" % (what, v, src)))
            return None
        return v // TB

    for i in mains:
        s = full[i]
        fl = bl[i][1]
        if not s.endswith(b"|") or b"|" in s[:-1]:
            E.append(("S5", "stem shape %r in block %d" % (s[:20], i)))
        if F(fl, CRAWLED) and not F(fl, PAGE):
            E.append(("S6", "block %d crawled but not page" % i))
        if (bl[i][7] or bl[i][8]) and not F(fl, PAGE):
            E.append(("S6", "block %d has link heads but is not a page" % i))
    # ---- tree walk (S3 part 2, S4, S5)
    seen = set()
    lrus = d.lrus
    if n > 1 and 1 in mains:
        # (block, parent block, prefix, lo, hi, bstdepth, level)
        stack = [(1, 0, b"", None, None, 0, 1)]
        sizes = Counter()
        while stack:
            i, par, pre, lo, hi, bd, lvl = stack.pop()
            if i in seen:
                E.append(("S3", "block %d reached twice" % i))
                continue
            seen.add(i)
            stem, fl, weid, l, r, c, p, o, inn = bl[i]
            s = full[i]
            if lo is not None and not s > lo:
                E.append(("S4", "BST order broken at block %d" % i))
            if hi is not None and not s < hi:
                E.append(("S4", "BST order broken at block %d" % i))
            if p != par * TB:
                E.append(("S5", "parent pointer of block %d is %d, expected %d" % (i, p, par * TB)))
            lru = pre + s
            lrus[lru] = i
            if bd + lvl > d.maxdepth:
                d.maxdepth = bd + lvl
            sizes[(par, )] += 1
            li = ptr(l, "left", i)
            ri = ptr(r, "right", i)
            ci = ptr(c, "child", i)
            if li:
                stack.append((li, par, pre, lo, s, bd + 1, lvl))
            if ri:
                stack.append((ri, par, pre, s, hi, bd + 1, lvl))
            if ci:
                stack.append((ci, i, lru, None, None, bd, lvl + 1))
        if seen != mains:
            E.append(("S3", "orphan main blocks %s" % sorted(mains - seen)[:6]))
        d.shapes = Counter(sizes.values())
    elif n > 1:
        E.append(("S3", "first data block is not a main block"))
    inv = {v: k for k, v in lrus.items()}
    for lru, i in lrus.items():
        stem, fl, weid = bl[i][0], bl[i][1], bl[i][2]
        if F(fl, PAGE):
            d.pages[lru] = bool(F(fl, CRAWLED))
        if weid:
            d.we[lru] = weid
        if F(fl, RULE):
            d.rules.add(lru)
        d.nochild[lru] = bool(F(fl, NOCHILD))
    # ---- links (S7)
    stubs = [struct.unpack_from("<QQ", lbuf, k * LB) for k in range(m)]
    used = Counter()

    def walk(head, src):
        out = Counter()
        k = head
        if k % LB or k // LB >= m or k // LB < 1:
            E.append(("S7", "bad link head %d in block %d" % (head, src)))
            return out
        k //= LB
        guard = 0
        while True:
            guard += 1
            if guard > m + 1:
                E.append(("S7", "link list cycle from block %d" % src))
                break
            used[k] += 1
            tgt, prev = stubs[k]
            ti = None
            if tgt % TB == 0 and tgt // TB in inv:
                ti = tgt // TB
            if ti is None:
                E.append(("S7", "link stub %d targets non-node %d" % (k, tgt)))
            else:
                if not F(bl[ti][1], PAGE):
                    E.append(("S7", "link stub %d targets a non-page" % k))
                out[inv[ti]] += 1
            if prev == 0:
                break
            if prev % LB or prev // LB >= len(stubs) or prev // LB < 1:
                E.append(("S7", "previous pointer of stub %d is out of range" % k))
                break
            # (a pointer towards a LATER stub is unusual for an append-only store but no statement forbids it:
            # cycles are caught by the guard above, double use by the reach count)
            k = prev // LB
        return out

    for lru, i in lrus.items():
        o, inn = bl[i][7], bl[i][8]
        if o:
            for t, c in walk(o, i).items():
                d.out[(lru, t)] += c
        if inn:
            for s, c in walk(inn, i).items():
                d.inn[(s, lru)] += c
    shared = [k for k, v in used.items() if v != 1]
    if shared:
        E.append(("S7", "link stubs reached more than once: %s" % shared[:6]))
    if m >= 1 and len(used) != m - 1:
        E.append(("S7-orphan", "%d of %d link stubs unreachable" % (m - 1 - len(used), m - 1)))
    if d.out != d.inn:
        diff = (d.out - d.inn) + (d.inn - d.out)
        E.append(("S7-asym", "outbound and inbound multisets differ on %d pairs" % len(diff)))
    return d
