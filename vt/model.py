# Reference model of the abstract state of a Traph, written from the property
# statements (DESIGN.md 2.3).  Shares no code with the implementation.
#
# Webentity ids: the model never predicts id *values* (C12 only demands that
# they are fresh and increasing).  It numbers its own creations with "gids" and
# the executor binds each gid to the id the real index reported.
import re
from collections import Counter, defaultdict

from .util import stems, prefixes_of


def variations(lru):
    """Scheme / www variations of a prefix, from the C17 statement:
    swap the scheme stem http<->https; toggle a trailing 'www' host stem when at
    least two host stems remain.  The prefix itself comes first."""
    st = stems(lru)
    if not st:
        return [lru]

    def swap(st):
        if st[0] == b"s:http|":
            return [b"s:https|"] + st[1:]
        if st[0] == b"s:https|":
            return [b"s:http|"] + st[1:]
        return None

    def www(st):
        # host stems are the contiguous run of h: stems after scheme (+ port)
        i = 1
        if len(st) > 1 and st[1].startswith(b"t:"):
            i = 2
        j = i
        while j < len(st) and st[j].startswith(b"h:"):
            j += 1
        nh = j - i
        if nh < 2:
            return None
        last = j - 1
        if st[last] == b"h:www|":
            if nh - 1 < 2:
                return None
            return st[:last] + st[last + 1 :]
        return st[: last + 1] + [b"h:www|"] + st[last + 1 :]

    out = [st]
    s = swap(st)
    if s:
        out.append(s)
    w = www(st)
    if w:
        out.append(w)
        if s:
            out.append(www(s))
    return [b"".join(x) for x in out]


class Model(object):
    def __init__(self, default_rule, rules, write_rules=True):
        self.nodes = set()
        self.optional = set()  # stem-prefixes named only by refused requests: may or may not be stored
        self.pages = {}  # lru -> crawled
        self.we = {}  # prefix -> gid
        self.flags = set()  # rule anchors written in the index
        self.rules = {}  # anchor -> compiled regex (RAM)
        self.links = Counter()  # (s, t) -> submissions
        self.next_gid = 1
        self.new_groups = []  # [(gid, [prefixes])] created by the running request
        self.set_default(default_rule)
        for a, p in rules.items():
            self.add_rule(a, p, write=write_rules)
        self.new_groups = []

    # ------------------------------------------------------------------ rules
    def set_default(self, pattern):
        self.default_pattern = pattern
        self.default = re.compile(pattern, re.I)

    def ins(self, lru, optional=False):
        for p in prefixes_of(lru):
            if optional:
                if p not in self.nodes:
                    self.optional.add(p)
            else:
                self.optional.discard(p)
            self.nodes.add(p)

    def required_nodes(self):
        return self.nodes - self.optional

    def longest_we(self, lru):
        best = None
        for p in prefixes_of(lru):
            if p in self.we:
                best = p
        return best

    def resolve(self, lru):
        p = self.longest_we(lru)
        return (self.we[p], p) if p is not None else (None, None)

    def candidate(self, lru):
        K = b""
        for p in prefixes_of(lru):
            if p in self.flags:
                m = self.rules[p].search(lru)
                if m and m.group() and len(m.group()) > len(K):
                    K = m.group()
        return K

    def potential(self, lru):
        E = self.longest_we(lru)
        K = self.candidate(lru)
        if len(K) <= (len(E) if E is not None else -1):
            return E
        if K:
            return K
        m = self.default.search(lru)
        return m.group() if m and m.group() else False

    def _create(self, K):
        vs = variations(K)
        valid = []
        for v in vs:
            self.ins(v)
            if v not in self.we and v not in valid:
                valid.append(v)
        if valid:
            gid = self.next_gid
            self.next_gid += 1
            for v in valid:
                self.we[v] = gid
            self.new_groups.append((gid, valid))

    # ----------------------------------------------------------------- writes
    def add_page(self, lru, crawled=False):
        new = lru not in self.pages
        self.ins(lru)
        self.pages[lru] = self.pages.get(lru, False) or bool(crawled)
        E = self.longest_we(lru)
        K = self.candidate(lru)
        if len(K) <= (len(E) if E is not None else -1):
            pass
        elif K:
            self._create(K)
        else:
            m = self.default.search(lru)
            if m and m.group():
                self._create(m.group())
        return int(new)

    def pages_under(self, anchor):
        return [p for p in self.pages if p.startswith(anchor)]

    def add_rule(self, anchor, pattern, write=True, order=None):
        self.rules[anchor] = re.compile(pattern, re.I)
        if not write:
            return
        self.ins(anchor)
        self.flags.add(anchor)
        pages = sorted(self.pages_under(anchor)) if order is None else order
        for p in pages:
            self.add_page(p)

    def remove_rule(self, anchor):
        del self.rules[anchor]
        self.flags.discard(anchor)

    def add_links(self, links):
        n = 0
        for s, t in links:
            n += self.add_page(s)
            n += self.add_page(t)
        # the implementation inserts all pages first (in pair order), then links
        for s, t in links:
            self.links[(s, t)] += 1
        return n

    def batch(self, data):
        """data: ordered list of (source, [targets])."""
        n = 0
        for s, ts in data:
            n += self.add_page(s, True)
            for t in ts:
                n += self.add_page(t, False)
                self.links[(s, t)] += 1
        return n

    def create_webentity(self, prefixes):
        """Returns True if accepted."""
        if any(p in self.we for p in prefixes):
            # refused: whether the other prefixes of the list were stored on the way is not specified
            for p in prefixes:
                self.ins(p, optional=True)
            return False
        for p in prefixes:
            self.ins(p)
        gid = self.next_gid
        self.next_gid += 1
        uniq = []
        for p in prefixes:
            if p not in uniq:
                uniq.append(p)
        for p in uniq:
            self.we[p] = gid
        self.new_groups.append((gid, uniq))
        return True

    def clear(self, default_rule=None, rules=None):
        self.nodes = set()
        self.optional = set()
        self.pages = {}
        self.we = {}
        self.flags = set()
        self.links = Counter()
        if default_rule is not None:
            self.set_default(default_rule)
        if rules is not None:
            self.rules = {}
            for a, p in rules.items():
                self.add_rule(a, p)
        # NB: rules not replaced stay in RAM but their flags are gone

    def take_groups(self):
        g = self.new_groups
        self.new_groups = []
        return g

    # ---------------------------------------------------------------- queries
    def webentities(self):
        byw = defaultdict(list)
        for p, w in self.we.items():
            byw[w].append(p)
        return byw

    def page_owner(self):
        """lru -> (gid, prefix) for every page."""
        return {p: self.resolve(p) for p in self.pages}

    def we_pages(self, gid, owner=None):
        owner = owner or self.page_owner()
        return {p: self.pages[p] for p, (w, _) in owner.items() if w == gid}

    def children(self, gid):
        ps = [p for p, w in self.we.items() if w == gid]
        return {
            w2
            for p2, w2 in self.we.items()
            if w2 != gid and any(p2.startswith(p) and p2 != p for p in ps)
        }

    def parents(self, gid):
        ps = [p for p, w in self.we.items() if w == gid]
        return {
            w2
            for p2, w2 in self.we.items()
            if w2 != gid and any(p.startswith(p2) and p2 != p for p in ps)
        }

    def we_pagelinks(self, gid, internal, outbound, inbound, owner=None):
        owner = owner or self.page_owner()
        e = Counter()
        for (s, t), c in self.links.items():
            sw = owner[s][0]
            tw = owner[t][0]
            if sw == gid and tw == gid and internal:
                e[(s, t)] += c
            if sw == gid and tw != gid and outbound:
                e[(s, t)] += c
            if tw == gid and sw != gid and inbound:
                e[(s, t)] += c
        return e

    def network(self, out, auto, owner=None):
        owner = owner or self.page_owner()
        e = Counter()
        for (s, t), c in self.links.items():
            sw = owner[s][0]
            tw = owner[t][0]
            if sw is None or tw is None:
                continue
            if sw == tw and not auto:
                continue
            if out:
                e[(sw, tw)] += c
            else:
                e[(tw, sw)] += c
        return e

    def indegrees(self):
        d = defaultdict(set)
        for (s, t) in self.links:
            d[t].add(s)
        return {p: len(d.get(p, ())) for p in self.pages}

    def trie_blocks(self, lrus=None):
        from .util import blocks_for_stem

        n = 1
        for lru in (self.nodes if lrus is None else lrus):
            n += blocks_for_stem(stems(lru)[-1])
        return n

    def tail_blocks(self, lrus=None):
        from .util import blocks_for_stem

        return sum(blocks_for_stem(stems(lru)[-1]) - 1 for lru in (self.nodes if lrus is None else lrus))
