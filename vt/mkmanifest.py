# Regenerates /verif/MANIFEST.json from vt/props.py (run: /venv/bin/python -m vt.mkmanifest)
import json
import os

from . import props as P
from .util import VERIF

ALL = ["C%02d" % i for i in range(1, 21)]

TECH = {
    "history": "runtime monitoring: random write histories on the real index in lockstep with a reference model; online oracle model = raw-byte decoder = API answers at quiescent points, lost-update sanitizer on cached nodes",
    "paging": "runtime monitoring: token-fed pagination driven on generated states (all page sizes, insertions between calls), trace checked against model order and the unpaginated answer",
    "lifecycle": "runtime monitoring: differential execution (closed/reopened vs never closed; cleared vs fresh; memory vs file) with battery digests after every request",
    "readonly": "runtime monitoring: read-only window monitor (write-event counter at the storage boundary + SHA-256 of both stores around every query)",
    "scheduler": "runtime monitoring with injected yields: every loop iteration of the *_iter requests made a scheduling point, random and exhaustive interleavings, final-state and bracketing oracles, lost-update sanitizer",
    "purelaws": "runtime contracts (pre/postcondition wrappers with evaluation counters) on lru_variations / expand_prefix over an exhaustively enumerated bounded grammar",
    "crashcut": "fault injection: recorded program-ordered write log cut at every block and byte position, files reconstructed, reopened and audited",
}

ENGINE_FILES = {
    "history": "vt/engines/history.py",
    "paging": "vt/engines/paging.py",
    "lifecycle": "vt/engines/lifecycle.py",
    "readonly": "vt/engines/readonly.py",
    "scheduler": "vt/engines/scheduler.py",
    "purelaws": "vt/engines/purelaws.py",
    "crashcut": "vt/engines/crashcut.py",
}


def main():
    checks = []
    engines = {}
    for pid in ALL:
        if pid not in P.PROPS:
            continue
        s = P.PROPS[pid]
        eng = s["engine"]
        engines.setdefault(eng, []).append(pid)
        checks.append({
            "property_id": pid,
            "quick_cmd": "./check %s --tier quick" % pid,
            "thorough_cmd": "./check %s --tier thorough" % pid,
            "evidence_file": "/verif/evidence/%s.json" % pid,
            "replay_cmd_template": "./check %s --replay {path}" % pid,
            "engine": eng,
            "level_claimed": {
                "category": s["level"],
                "text": s.get("level_text") or (
                    "Held on the executions generated in this run, judged by an executable oracle; sampling of an unbounded "
                    "space of histories/inputs, not a proof. Right level because the property quantifies over histories and "
                    "inputs that only execution of the real code can exhibit."),
                "design_ref": "DESIGN.md section 3, " + pid,
            },
            "level_note": s.get("level_note") or "Trusts the reference model (vt/model.py), the raw decoder (vt/rawdecode.py) and CPython; scope bounds in DESIGN.md section 7.",
            "technique": s.get("technique") or TECH[eng],
        })
    na = [{"property_id": p, "reason": P.NOT_APPLICABLE.get(p, "check not built yet in this session (runtime-monitoring design exists in DESIGN.md section 3); not claimed until its engine is committed")}
          for p in ALL if p not in P.PROPS]
    man = {
        "version": 1,
        "setup_cmd": "./setup.sh",
        "hooks": {
            "guard": "HYPHE_TRAPH_VERIF",
            "enable": "no source hook exists in /repo: all instrumentation is applied by the harness at import time (wrapping module attributes of the working tree); checks export HYPHE_TRAPH_VERIF=1 for uniformity",
            "baseline_off_cmd": "cd /repo && env -u HYPHE_TRAPH_VERIF /venv/bin/python -m pytest -ra -q -p no:cacheprovider --timeout=900 --continue-on-collection-errors",
            "source_commits": [],
            "add_only": True,
        },
        "engines": [{"name": e, "path": ENGINE_FILES[e], "serves_properties": ps, "kind_free_text": TECH[e]} for e, ps in engines.items()],
        "checks": checks,
        "not_applicable": na,
        "notes": "Exit codes of every check: 0 held on everything explored, 1 VIOLATION (replay file under /verif/replays), 2 INCONCLUSIVE (watchdog, dead shard, deciding oracle never evaluated). Genuine defects repaired by 'fix:' commits in /repo and the one recorded finding are in known_findings.json.",
    }
    with open(os.path.join(VERIF, "MANIFEST.json"), "w") as f:
        json.dump(man, f, indent=1)
    print("MANIFEST.json: %d checks, %d not claimed" % (len(checks), len(na)))


if __name__ == "__main__":
    main()
