# Shared helpers: byte-safe JSON, LRU stem handling (independent of traph.helpers).
import json
import os
import sys

REPO = os.environ.get("REPO", "/repo")
VERIF = os.path.dirname(os.path.dirname(os.path.abspath(__file__)))


def import_traph():
    """Import the package from the working tree of $REPO (never from site-packages)."""
    if REPO not in sys.path:
        sys.path.insert(0, REPO)
    import traph  # noqa

    assert os.path.realpath(traph.__file__).startswith(os.path.realpath(REPO)), (
        traph.__file__,
        REPO,
    )
    return traph


# --------------------------------------------------------------------------
# JSON with bytes
# --------------------------------------------------------------------------
def _enc(o):
    if isinstance(o, (bytes, bytearray)):
        return {"$b": bytes(o).decode("latin-1")}
    if isinstance(o, dict):
        if all(isinstance(k, str) for k in o):
            return {k: _enc(v) for k, v in o.items()}
        return {"$d": [[_enc(k), _enc(v)] for k, v in o.items()]}
    if isinstance(o, (list, tuple)):
        return [_enc(x) for x in o]
    if isinstance(o, (set, frozenset)):
        return {"$s": sorted((_enc(x) for x in o), key=repr)}
    if isinstance(o, (str, int, float, bool)) or o is None:
        return o
    return repr(o)


def _dec(o):
    if isinstance(o, dict):
        if "$b" in o and len(o) == 1:
            return o["$b"].encode("latin-1")
        if "$d" in o and len(o) == 1:
            return {_hash(_dec(k)): _dec(v) for k, v in o["$d"]}
        if "$s" in o and len(o) == 1:
            return set(_hash(_dec(x)) for x in o["$s"])
        return {k: _dec(v) for k, v in o.items()}
    if isinstance(o, list):
        return [_dec(x) for x in o]
    return o


def _hash(o):
    return tuple(_hash(x) for x in o) if isinstance(o, list) else o


def jdumps(o, **kw):
    return json.dumps(_enc(o), **kw)


def jloads(s):
    return _dec(json.loads(s))


def jdump_file(o, path):
    tmp = path + ".tmp%d" % os.getpid()
    with open(tmp, "w") as f:
        f.write(jdumps(o, indent=1))
    os.replace(tmp, path)


def jload_file(path):
    with open(path) as f:
        return jloads(f.read())


# --------------------------------------------------------------------------
# LRU stems (own splitter)
# --------------------------------------------------------------------------
SEP = 0x7C


def stems(lru):
    out = []
    last = 0
    for i, b in enumerate(lru):
        if b == SEP:
            out.append(lru[last : i + 1])
            last = i + 1
    return out


def wellformed(lru):
    return len(lru) > 0 and lru[-1] == SEP


def prefixes_of(lru):
    acc = b""
    out = []
    for s in stems(lru):
        acc += s
        out.append(acc)
    return out


def is_stem_prefix(p, lru):
    """p is a (non necessarily proper) stem-prefix of lru."""
    return lru.startswith(p) and wellformed(p)


def blocks_for_stem(stem):
    n = len(stem)
    return max(1, -(-n // 74))
