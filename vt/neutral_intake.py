# Intake of an independent behaviour-preserving refactoring (false-alarm evidence):
#   /venv/bin/python -m vt.neutral_intake <id> <dir with patch.diff notes.md> [--shards N] [--tier quick]
# scratch copy of /repo + patch; the repository's tests; ALL twenty checks with REPO
# pointing at the copy; every check must stay silent (rc 0).  Stored under /verif/neutral/<id>/.
import argparse
import json
import os
import shutil
import sys
import time

from .mutation_audit import evaluate, apply_patch, ALL
from .util import VERIF


def main():
    ap = argparse.ArgumentParser()
    ap.add_argument("nid")
    ap.add_argument("src")
    ap.add_argument("--shards", type=int, default=5)
    ap.add_argument("--tier", default="quick")
    ap.add_argument("--props")
    a = ap.parse_args()
    patch = os.path.abspath(os.path.join(a.src, "patch.diff"))
    props = a.props.split(",") if a.props else ALL
    r = evaluate(a.nid, apply_patch(patch), props, a.tier, a.shards)
    meta = {
        "id": a.nid,
        "origin": "independent sub-agent asked for a non-trivial behaviour-preserving refactoring of one area, given only the twenty "
                  "property statements as the contract and a scratch worktree of /repo (no access to /verif)",
        "at": time.strftime("%Y-%m-%d %H:%M:%S"),
        "tier": a.tier,
        "repo_tests_pass_with_change": r.get("survives_repo_tests"),
        "checks": {p: {"rc": c["rc"], "s": c["s"], **({"witness": c["witness"]} if c["rc"] else {})} for p, c in r.get("checks", {}).items()},
        "alarms": [p for p, c in r.get("checks", {}).items() if c["rc"] != 0],
    }
    if "error" in r:
        meta["error"] = r["error"]
    dst = os.path.join(VERIF, "neutral", a.nid)
    os.makedirs(dst, exist_ok=True)
    if os.path.realpath(a.src) != os.path.realpath(dst):
        shutil.copy(patch, os.path.join(dst, "patch.diff"))
        n = os.path.join(a.src, "notes.md")
        if os.path.exists(n):
            shutil.copy(n, os.path.join(dst, "notes.md"))
    mp = os.path.join(dst, "meta.json")
    if os.path.exists(mp):
        old = json.load(open(mp))
        meta["history"] = old.get("history", []) + [{k: old.get(k) for k in ("at", "tier", "alarms")}]
        if a.props:
            # a partial re-run: the verdicts of the checks not re-run are kept (with the date of the run they come from)
            kept = {p: dict(c, at=c.get("at", old.get("at"))) for p, c in old.get("checks", {}).items() if p not in meta["checks"]}
            meta["checks"] = dict(sorted({**kept, **meta["checks"]}.items()))
            meta["alarms"] = [p for p, c in meta["checks"].items() if c["rc"] != 0]
    json.dump(meta, open(mp, "w"), indent=1)
    print("%s repo tests:%s alarms=%s %s" % (a.nid, "pass" if meta["repo_tests_pass_with_change"] else "FAIL", meta["alarms"], meta.get("error", "")))
    for p in meta["alarms"]:
        print("   ", p, meta["checks"][p])
    return 0


if __name__ == "__main__":
    sys.exit(main())
