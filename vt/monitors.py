# Harness-side monitors and sanitizers (DESIGN.md 2.5).  All of them are applied
# by wrapping module attributes of the *imported working tree*; nothing in /repo
# is edited.  Each monitor reports itself absent when its target is missing.
import hashlib
import os
import struct
import sys
from collections import Counter

from .util import import_traph

import_traph()
import traph.traph as TT  # noqa: E402
from traph.lru_trie import node as TN  # noqa: E402
import traph.traph_iterator_state as TIS  # noqa: E402
import traph.storage.memory as TMEM  # noqa: E402

import builtins  # noqa: E402

STATUS = {}  # monitor name -> "on" | "absent: why"

# --------------------------------------------------------------------------
# M1 recording file proxy
# --------------------------------------------------------------------------
LOG = []  # ("open", name, mode) | ("write", name, pos, bytes) | ("close", name)
LOG_ON = [False]
WRITES = [0]  # total write events on any backend (M4 counter)
FAIL_AT = [None]  # crash injection: raise at the n-th write event (C18 validation)


class CrashInjected(BaseException):
    pass


import weakref  # noqa: E402

# file descriptor -> RecFile, for writes that go through os.pwrite / os.write on fileno().  WEAK references: a handle the
# library drops without closing must be finalised exactly as it would be without the monitor (seed6-H11E needs that)
FDS = weakref.WeakValueDictionary()


class RecFile(object):
    def __init__(self, f, path, mode):
        self._f = f
        self._name = os.path.basename(path)
        try:
            FDS[f.fileno()] = self
        except Exception:
            pass
        if LOG_ON[0]:
            LOG.append(("open", self._name, mode))

    def seek(self, *a):
        return self._f.seek(*a)

    def tell(self):
        return self._f.tell()

    def read(self, *a):
        return self._f.read(*a)

    def write(self, data):
        WRITES[0] += 1
        if FAIL_AT[0] is not None:
            if FAIL_AT[0] <= 0:
                raise CrashInjected()
            FAIL_AT[0] -= 1
        if LOG_ON[0]:
            LOG.append(("write", self._name, self._f.tell(), bytes(data)))
        return self._f.write(data)

    def close(self):
        if LOG_ON[0]:
            LOG.append(("close", self._name))
        try:
            FDS.pop(self._f.fileno(), None)
        except Exception:
            pass
        return self._f.close()

    def flush(self):
        return self._f.flush()

    def writelines(self, lines):
        for x in lines:
            self.write(x)

    def __enter__(self):
        return self

    def __exit__(self, *exc):
        self.close()
        return False

    def __iter__(self):
        return iter(self._f)

    def fileno(self):
        self._f.flush()
        return self._f.fileno()

    def truncate(self, *a):
        WRITES[0] += 1
        if FAIL_AT[0] is not None:
            if FAIL_AT[0] <= 0:
                raise CrashInjected()
            FAIL_AT[0] -= 1
        size = a[0] if a and a[0] is not None else self._f.tell()
        if LOG_ON[0]:
            LOG.append(("truncate", self._name, (size,)))
        return self._f.truncate(*a)

    @property
    def name(self):
        return self._f.name

    @property
    def closed(self):
        return self._f.closed

    def __getattr__(self, k):
        return getattr(self._f, k)


ORIG_OPEN = builtins.open
TRACKED_NAMES = ("lru_trie.dat", "link_store.dat")


def _rec_open(path, mode="r", *a, **k):
    return RecFile(ORIG_OPEN(path, mode, *a, **k), os.fspath(path), mode)


def _global_open(path, mode="r", *a, **k):
    """builtins.open / io.open while the monitors are installed: the two store files are wrapped whoever
    opens them (pathlib.Path.open, a helper in another module), every other file is opened as usual."""
    try:
        base = os.path.basename(os.fspath(path))
    except TypeError:
        base = None
    if base in TRACKED_NAMES:
        return RecFile(ORIG_OPEN(path, mode, *a, **k), os.fspath(path), mode)
    return ORIG_OPEN(path, mode, *a, **k)


def _fd_event(fd, pos, data):
    rf = FDS.get(fd)
    if rf is None:
        return
    WRITES[0] += 1
    if FAIL_AT[0] is not None:
        if FAIL_AT[0] <= 0:
            raise CrashInjected()
        FAIL_AT[0] -= 1
    if LOG_ON[0]:
        LOG.append(("write", rf._name, pos, bytes(data)))


def _install_fd_hooks():
    """A storage layer that writes with os.pwrite / os.write on the file descriptor (no seek) is as good
    as one that uses the file object: the same events are recorded at that boundary."""
    if getattr(os, "_vt_fd_hooks", False):
        return
    _pwrite, _write, _ftruncate = getattr(os, "pwrite", None), os.write, os.ftruncate

    if _pwrite is not None:
        def pwrite(fd, data, offset):
            _fd_event(fd, offset, data)
            return _pwrite(fd, data, offset)
        os.pwrite = pwrite

    def write(fd, data):
        if fd in FDS:
            _fd_event(fd, os.lseek(fd, 0, os.SEEK_CUR), data)
        return _write(fd, data)

    def ftruncate(fd, length):
        rf = FDS.get(fd)
        if rf is not None:
            WRITES[0] += 1
            if LOG_ON[0]:
                LOG.append(("truncate", rf._name, (length,)))
        return _ftruncate(fd, length)

    os.write = write
    os.ftruncate = ftruncate
    os._vt_fd_hooks = True


def install_m1():
    # shadows the builtin inside every module of the package (the files are opened in traph.traph today)
    for name, mod in list(sys.modules.items()):
        if (name == "traph" or name.startswith("traph.")) and mod is not None and "open" not in getattr(mod, "__dict__", {}):
            try:
                mod.open = _rec_open
            except Exception:
                pass
    TT.open = _rec_open
    import io

    builtins.open = _global_open
    io.open = _global_open
    _install_fd_hooks()
    STATUS["M1"] = "on"


def install_mem_write_counter():
    """Counts writes/clears of MemoryStorage for the read-only window monitor."""
    cls = getattr(TMEM, "MemoryStorage", None)
    if cls is None or not hasattr(cls, "write"):
        STATUS["M4mem"] = "absent: MemoryStorage.write"
        return
    if getattr(cls, "_vt_wrapped", False):
        return
    _w = cls.write
    _c = getattr(cls, "clear", None)

    def write(self, *a, **k):
        WRITES[0] += 1
        return _w(self, *a, **k)

    def clear(self, *a, **k):
        WRITES[0] += 1
        return _c(self, *a, **k)

    try:
        cls.write = write
        if _c is not None:
            cls.clear = clear
        cls._vt_wrapped = True
    except (AttributeError, TypeError) as e:
        STATUS["M4mem"] = "absent: cannot wrap MemoryStorage (%s)" % type(e).__name__
        return
    STATUS["M4mem"] = "on"


# --------------------------------------------------------------------------
# M2 lost-update sanitizer on cached trie nodes
# --------------------------------------------------------------------------
M2_EVENTS = []
M2_STATS = Counter()
FIELD_NAMES = ["stem", "flags", "webentity", "left", "right", "child", "parent", "outlinks", "inlinks"]


SHADOW = {}  # id(node object) -> register values as last read / written through that object


def install_m2():
    cls = getattr(TN, "LRUTrieNode", None)
    if cls is None or not (hasattr(cls, "read") and hasattr(cls, "write")):
        STATUS["M2"] = "absent: LRUTrieNode.read/write"
        return
    if getattr(cls, "_vt_m2", False):
        return
    fmt = getattr(TN, "LRU_TRIE_NODE_FORMAT", None)
    if not isinstance(fmt, str):
        STATUS["M2"] = "absent: LRU_TRIE_NODE_FORMAT"
        return
    _read = cls.read
    _write = cls.write

    def read(self, *a, **k):
        # signature-agnostic: the wrapped method may grow parameters
        r = _read(self, *a, **k)
        # the shadow copy lives OUTSIDE the node (a node class with __slots__ accepts no new attribute)
        try:
            if len(SHADOW) > 200000:
                SHADOW.clear()
            SHADOW[id(self)] = list(self.data) if self.exists else None
        except Exception:
            SHADOW.pop(id(self), None)
        return r

    def write(self, *a, **k):
        M2_STATS["writes"] += 1
        try:
            if self.exists and self.block is not None:
                M2_STATS["inplace"] += 1
                raw = self.storage.read(self.block)
                sh = SHADOW.get(id(self))
                if raw is not None and sh is not None and len(raw) == struct.calcsize(fmt):
                    disk = list(struct.unpack(fmt, bytes(raw)))
                    for f in range(len(disk)):
                        if disk[f] != sh[f]:
                            M2_STATS["foreign_changes"] += 1
                            if f == 1:
                                changed = disk[f] ^ sh[f]
                                if (self.data[f] ^ disk[f]) & changed:
                                    M2_EVENTS.append((self.block, FIELD_NAMES[f], sh[f], disk[f], self.data[f]))
                            elif self.data[f] != disk[f]:
                                M2_EVENTS.append((self.block, FIELD_NAMES[f], sh[f], disk[f], self.data[f]))
        except Exception as e:  # the sanitizer must never break the run
            M2_STATS["monitor_errors"] += 1
        r = _write(self, *a, **k)
        try:
            SHADOW[id(self)] = list(self.data)
        except Exception:
            SHADOW.pop(id(self), None)
        return r

    try:
        cls.read = read
        cls.write = write
        cls._vt_m2 = True
    except (AttributeError, TypeError) as e:
        STATUS["M2"] = "absent: cannot wrap LRUTrieNode (%s)" % type(e).__name__
        return
    STATUS["M2"] = "on"


def m2_take():
    ev = list(M2_EVENTS)
    del M2_EVENTS[:]
    return ev


# --------------------------------------------------------------------------
# M7 yield forcing
# --------------------------------------------------------------------------
def install_m7():
    cls = getattr(TIS, "TraphIteratorState", None)
    if cls is None or not hasattr(cls, "should_yield"):
        STATUS["M7"] = "absent: TraphIteratorState.should_yield"
        return False

    _orig = cls.should_yield

    def should_yield(self, *a, **k):
        _orig(self, *a, **k)  # the class's own book-keeping (iteration counter), whatever it is called
        return True

    cls.should_yield = should_yield
    STATUS["M7"] = "on"
    return True


# --------------------------------------------------------------------------
# store access / digests (used by M4 and the decoder)
# --------------------------------------------------------------------------
def store_bytes(t):
    """Raw bytes of both stores of a live Traph (flushes files first)."""
    folder = getattr(t, "folder", None)
    if not folder:
        return _mem_bytes(getattr(t, "lru_trie", None), "lru_trie_storage", t), _mem_bytes(getattr(t, "link_store", None), "links_store_storage", t)
    # file back-end: flush whatever handles the monitors handed out for this folder, then read the two files by name
    for rf in list(FDS.values()):
        try:
            if os.path.dirname(os.path.abspath(rf._f.name)) == os.path.abspath(str(folder)) and not rf._f.closed:
                rf._f.flush()
        except Exception:
            pass
    for nm in ("lru_trie_file", "link_store_file"):
        try:
            getattr(t, nm).flush()
        except Exception:
            pass
    out = []
    for nm in TRACKED_NAMES:
        with ORIG_OPEN(os.path.join(str(folder), nm), "rb") as f:
            out.append(f.read())
    return out[0], out[1]


def _mem_bytes(store, attr, t):
    """Bytes of an in-memory store: the storage object is found on the store (`.storage`) or on the Traph
    (`attr`), its content read through `.array` when it has one, else block by block through read()."""
    st = getattr(store, "storage", None)
    if st is None:
        st = getattr(t, attr, None)
    arr = getattr(st, "array", None)
    if arr is not None:
        return bytes(arr)
    size = getattr(st, "block_size", None)
    n = len(st)
    return b"".join(bytes(st.read(b) or b"") for b in range(0, n, size))


def store_digest(t):
    a, b = store_bytes(t)
    return hashlib.sha256(a).hexdigest() + hashlib.sha256(b).hexdigest()


# --------------------------------------------------------------------------
# M3 write-order sanitizer over an M1 log (file backend)
# --------------------------------------------------------------------------
def m3_check(log):
    """Replays an M1 log and reports suspicious events (amplifier, not judge)."""
    files = {"lru_trie.dat": bytearray(), "link_store.dat": bytearray()}
    ev = []
    for e in log:
        if e[0] == "open":
            if "w" in e[2]:
                files[e[1]] = bytearray()
            continue
        if e[0] != "write":
            continue
        _, name, pos, data = e
        buf = files[name]
        if pos > len(buf):
            ev.append(("gap", name, pos, len(buf)))
            buf.extend(b"\0" * (pos - len(buf)))
        if name == "lru_trie.dat" and pos >= 128 and len(data) == 128:
            l, r, c, p, o, i = struct.unpack_from("<6Q", data, 80)
            end = len(buf) if pos < len(buf) else pos + 128
            for what, v in (("left", l), ("right", r), ("child", c)):
                if v and v >= max(end, pos + (0 if pos < len(buf) else 128)):
                    ev.append(("pointer-before-pointee", what, pos, v))
            for what, v, sz in (("outlinks", o, 16), ("inlinks", i, 16)):
                if v and v + sz > len(files["link_store.dat"]):
                    ev.append(("head-before-stub", what, pos, v))
            if pos < len(buf):
                old = bytes(buf[pos : pos + 128])
                if old[:75] != data[:75]:
                    ev.append(("stem-rewritten", pos))
                of, nf = old[75], data[75]
                if (of & 1) and not (nf & 1):
                    ev.append(("page-bit-cleared", pos))
                if (of & 2) and not (nf & 2):
                    ev.append(("crawled-bit-cleared", pos))
                if (of ^ nf) & 0x60:
                    ev.append(("tail-flags-changed", pos))
                ol = struct.unpack_from("<6Q", old, 80)
                for k, what in enumerate(("left", "right", "child", "parent")):
                    if ol[k] and ol[k] != (l, r, c, p)[k]:
                        ev.append(("pointer-changed", what, pos, ol[k], (l, r, c, p)[k]))
                if o and ol[4] and o < ol[4]:
                    ev.append(("head-moved-back", "outlinks", pos))
                if i and ol[5] and i < ol[5]:
                    ev.append(("head-moved-back", "inlinks", pos))
        if name == "link_store.dat" and pos >= 16 and pos < len(buf):
            ev.append(("link-store-rewrite", pos))
        buf[pos : pos + len(data)] = data
    return ev, files


# --------------------------------------------------------------------------
# M6 reach monitor (function entry counts in traph/*)
# --------------------------------------------------------------------------
REACH = Counter()
LINES = set()  # (file relative to the repository, line) of traph/* executed at least once
_TOOL = 3


def install_m6():
    mon = getattr(sys, "monitoring", None)
    if mon is None:
        STATUS["M6"] = "absent: sys.monitoring"
        return
    try:
        mon.use_tool_id(_TOOL, "vt-reach")
    except ValueError:
        STATUS["M6"] = "absent: tool id busy"
        return
    root = os.path.realpath(os.path.join(os.environ.get("REPO", "/repo"), "traph"))

    def on_start(code, offset):
        fn = code.co_filename
        if not fn.startswith(root):
            return mon.DISABLE
        REACH[code.co_qualname] += 1
        if REACH[code.co_qualname] >= 200:
            return mon.DISABLE  # "reached at least 200 times" is all M6 needs

    cut = len(os.path.dirname(root)) + 1

    def on_line(code, line):
        fn = code.co_filename
        if fn.startswith(root):
            LINES.add((fn[cut:], line))
        return mon.DISABLE  # the first execution of a line is all that is recorded

    mon.register_callback(_TOOL, mon.events.PY_START, on_start)
    mon.register_callback(_TOOL, mon.events.LINE, on_line)
    mon.set_events(_TOOL, mon.events.PY_START | mon.events.LINE)
    STATUS["M6"] = "on"


def lines_reached():
    out = {}
    for f, l in LINES:
        out.setdefault(f, []).append(l)
    return {f: sorted(v) for f, v in out.items()}


def executable_lines(repo):
    """file -> set of lines that carry code, from the compiled code objects of
    traph/*.py (docstring-only and 'def' header lines included as the compiler sees them)."""
    out = {}
    root = os.path.join(repo, "traph")
    for d, _, fs in os.walk(root):
        for f in fs:
            if not f.endswith(".py"):
                continue
            p = os.path.join(d, f)
            try:
                code = compile(open(p, "rb").read(), p, "exec")
            except SyntaxError:
                continue
            lines = set()
            todo = [code]
            while todo:
                c = todo.pop()
                if c.co_flags & 0x1:  # function bodies only: module and class bodies run at import, before M6 is on
                    for _, _, ln in c.co_lines():
                        if ln and ln != c.co_firstlineno:
                            lines.add(ln)
                todo += [k for k in c.co_consts if hasattr(k, "co_lines")]
            out[os.path.relpath(p, repo)] = lines
    return out


def reach_for(names):
    """entry counts for qualified names (suffix match)."""
    out = {}
    for n in names:
        out[n] = sum(v for k, v in REACH.items() if k == n or k.endswith("." + n) or k.endswith(n))
    return out
