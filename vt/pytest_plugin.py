# pytest plugin (loaded with -p vt.pytest_plugin, PYTHONPATH=/verif) that makes
# the monitors ride on the repository's own tests, run in a scratch copy of the
# working tree:
#   * M4 read-only window monitor around every read-only public Traph method;
#   * the relational auditor at every Traph.close(): the state the test built is
#     decoded from its bytes and every API answer is compared with it.
# The tests themselves are not edited; results go to $VT_RIDE_OUT as JSON.
import json
import os
import random
import traceback
from collections import Counter

from vt import monitors as M
from vt import battery as B
from vt.harness import Sut

from traph import Traph

STATS = Counter()
VIOL = []
PROPS = set((os.environ.get("VT_RIDE_PROPS") or "C01,C02,C03,C04,C05,C07,C08,C13,C19,C20").split(","))
DEPTH = [0]


def _wrap_reader(name):
    orig = getattr(Traph, name)

    def wrapped(self, *a, **k):
        if DEPTH[0]:
            return orig(self, *a, **k)
        DEPTH[0] += 1
        try:
            w0 = M.WRITES[0]
            try:
                d0 = M.store_digest(self)
            except Exception:
                d0 = None
            try:
                r = orig(self, *a, **k)
                if hasattr(r, "__next__") and not isinstance(r, (list, tuple, dict)):
                    r = list(r) if name in ("links_iter", "pages_iter", "webentity_prefix_iter", "webentity_page_nodes_iter") and False else r
                return r
            finally:
                STATS["C14_windows_on_repo_tests"] += 1
                try:
                    d1 = M.store_digest(self) if d0 is not None else None
                except Exception:
                    d1 = None
                if M.WRITES[0] != w0 or d0 != d1:
                    VIOL.append({"props": ["C14"], "kind": "read-only-request-changed-the-stores", "detail": {"call": name, "test": os.environ.get("PYTEST_CURRENT_TEST", "")}})
        finally:
            DEPTH[0] -= 1

    wrapped.__name__ = name
    return wrapped


def _audit_on_close(orig_close):
    def close(self):
        f = getattr(self, "lru_trie_file", None)
        live = getattr(self, "in_memory", False) or (f is not None and not f.closed)
        if not DEPTH[0] and live:
            DEPTH[0] += 1
            try:
                sut = Sut.attach(self, STATS)
                STATS["states_audited_on_repo_tests"] += 1
                for code, text in sut.attach_errors:
                    VIOL.append({"props": ["C02", "C03", "C19"], "kind": "structure:" + code, "detail": {"text": text, "test": os.environ.get("PYTEST_CURRENT_TEST", "")}})
                rng = random.Random(STATS["states_audited_on_repo_tests"])
                ds = sut.audit(rng, PROPS & {"C01", "C02", "C03", "C04", "C05", "C07", "C08", "C13", "C19", "C20"})
                for d in ds:
                    d["detail"]["test"] = os.environ.get("PYTEST_CURRENT_TEST", "")
                    VIOL.append(d)
            except Exception as e:
                VIOL.append({"props": ["HARNESS"], "kind": "auditor-exception", "detail": {"exc": repr(e), "tb": traceback.format_exc()[-600:]}})
            finally:
                DEPTH[0] -= 1
        return orig_close(self)

    return close


def pytest_configure(config):
    M.install_m1()
    M.install_mem_write_counter()
    # pagination / iterator readers return generators for *_iter: the window then
    # only covers their creation; the plain forms drain them inside the window
    for name in sorted(B.READERS):
        if name.endswith("_iter") or name in ("webentity_page_nodes_iter",):
            continue
        if hasattr(Traph, name):
            setattr(Traph, name, _wrap_reader(name))
    Traph.close = _audit_on_close(Traph.close)


def pytest_sessionfinish(session, exitstatus):
    out = os.environ.get("VT_RIDE_OUT")
    if not out:
        return
    kinds = Counter()
    firsts = []
    for v in VIOL:
        key = (tuple(v["props"]), v["kind"])
        kinds[key] += 1
        if kinds[key] == 1:
            firsts.append(v)
    with open(out, "w") as f:
        json.dump({"stats": dict(STATS), "violations": firsts[:40], "counts": [[list(k[0]), k[1], n] for k, n in kinds.items()],
                   "exitstatus": int(exitstatus)}, f, default=repr)
