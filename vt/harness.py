# The history engine's core: a real Traph driven in lockstep with the reference
# model; every write report is compared, and audits compare
#   model (from the history) = decoder (from the bytes) = API answers.
# A discrepancy is a dict {props:[ids it refutes], kind, detail}.
import os
import shutil
import tempfile
import traceback
import warnings
from collections import Counter, defaultdict

from . import monitors as M
from .gen import RX, neighbours
from .model import Model
from .rawdecode import decode
from .util import import_traph, stems, prefixes_of

import_traph()
from traph import Traph, TraphException  # noqa: E402

warnings.simplefilter("ignore")

PAGE_OPS = ("add_page", "add_pages", "add_links", "batch")
SWITCHES7 = [(a, b, c) for a in (0, 1) for b in (0, 1) for c in (0, 1) if a or b or c]


def D(props, kind, **detail):
    return {"props": list(props), "kind": kind, "detail": detail}


class Aborted(Exception):
    """Real index and model can no longer be compared (after a divergence)."""


class Sut(object):
    def __init__(self, cfg, scratch=None, audit_stats=None):
        self.cfg = cfg
        self.scratch = scratch
        self.folder = None
        self.own_folder = False
        if cfg["backend"] == "file":
            self.folder = tempfile.mkdtemp(prefix="vt", dir=scratch)
            self.own_folder = True
        rules = {a: RX[r] for a, r in cfg["rules"]}
        self.stats = audit_stats if audit_stats is not None else Counter()
        self.t = Traph(
            folder=self.folder,
            overwrite=cfg.get("overwrite", False),
            encoding=cfg.get("encoding", "utf-8"),
            default_webentity_creation_rule=RX[cfg["default"]],
            webentity_creation_rules=self.rule_keys(rules),
        )
        self.m = Model(RX[cfg["default"]], rules)
        self.idmap = {}  # gid -> actual id
        self.rid = {}  # actual id -> gid
        self.max_id = 0  # M5: running maximum of issued ids since creation / clear
        self.stats = audit_stats if audit_stats is not None else Counter()
        self.m.take_groups()
        self.opcount = Counter()
        self.local = Counter()  # per-case counters (features)
        self.dead = False

    @classmethod
    def attach(cls, traph, stats=None):
        """Wrap an index built by someone else (the repository's tests): the model
        is reconstructed from the raw bytes by the independent decoder, so the
        audits compare API answers with the decoded state (relational auditor).
        The RAM-only creation rules are unknown: rule-dependent audits do not apply."""
        self = cls.__new__(cls)
        self.cfg = {"backend": "memory" if getattr(traph, "in_memory", False) else "file", "default": "domain", "rules": [],
                    "encoding": getattr(traph, "encoding", "utf-8")}
        self.scratch = None
        self.folder = getattr(traph, "folder", None)
        self.own_folder = False
        self.t = traph
        self.stats = stats if stats is not None else Counter()
        self.opcount = Counter()
        self.local = Counter()
        self.dead = False
        self.last_report = None
        a, b = M.store_bytes(traph)
        dec = decode(a, b)
        self.attach_errors = list(dec.errors)
        m = Model(RX["domain"], {})
        m.nodes = set(dec.lrus)
        m.pages = dict(dec.pages)
        m.we = dict(dec.we)
        m.flags = set(dec.rules)
        m.links = Counter(dec.out)
        self.m = m
        ids = set(dec.we.values())
        self.idmap = {i: i for i in ids}
        self.rid = {i: i for i in ids}
        self.max_id = dec.last_id or 0
        return self

    # ------------------------------------------------------------------ utils
    def close(self):
        try:
            self.t.close()
        except Exception:
            pass
        for b, folder in getattr(self, "bystanders", []):
            try:
                b.close()
            except Exception:
                pass
            if folder:
                shutil.rmtree(folder, ignore_errors=True)
        if self.own_folder and self.folder:
            shutil.rmtree(self.folder, ignore_errors=True)

    def arg(self, lru, as_str):
        return lru.decode(self.cfg.get("encoding", "utf-8")) if as_str else lru

    def rule_keys(self, rules):
        """Rule anchors may be given as text as well as bytes: mix both (deterministically per anchor)."""
        enc = self.cfg.get("encoding", "utf-8")
        out = {}
        for a, pat in rules.items():
            key = a
            if (len(a) + a[-2]) % 3 == 0:
                try:
                    if a.decode(enc).encode(enc) == a:
                        key = a.decode(enc)
                        self.stats["text_rule_anchors"] += 1
                except Exception:
                    pass
            out[key] = pat
        return out

    def Q(self, lru):
        """Query argument: the API accepts text too (encoded with the index encoding); pass it as text now
        and then when it round-trips."""
        r = getattr(self, "_qrng", None)
        if r is None or r.random() > 0.25:
            return lru
        enc = self.cfg.get("encoding", "utf-8")
        try:
            t_ = lru.decode(enc)
            if t_.encode(enc) == lru:
                self.stats["text_arguments_in_queries"] += 1
                return t_
        except Exception:
            pass
        return lru

    def W(self, lru):
        """Prefix argument of a prefix-editing request: text instead of bytes for about a quarter of the
        prefixes (chosen by content, so a replay makes the same choice), when it round-trips."""
        if len(lru) > 2 and (len(lru) * 7 + lru[-2]) % 4 == 0:
            enc = self.cfg.get("encoding", "utf-8")
            try:
                t_ = lru.decode(enc)
                if t_.encode(enc) == lru:
                    self.stats["text_arguments_in_prefix_edits"] += 1
                    return t_
            except Exception:
                pass
        return lru

    def QL(self, lrus, one_shot=False):
        """The prefixes of a query: mostly a list, now and then a tuple and - for the requests that read
        their prefixes once on the pinned tree - a one-shot iterator (a generator expression at the call site)."""
        out = [self.Q(x) for x in lrus]
        r = getattr(self, "_qrng", None)
        if r is not None:
            x = r.random()
            if x < 0.2:
                self.stats["prefix_lists_given_as_tuples"] += 1
                return tuple(out)
            # (one-shot iterators were tried here and withdrawn: the statements speak of prefix LISTS, and an
            # implementation that reads the sequence twice is as good - see DESIGN.md section 11)
        return out

    def gid_of(self, prefix):
        return self.m.we.get(prefix)

    def tr(self, actual):
        """actual id -> gid (or a marker that never equals a gid)."""
        if actual is None:
            return None
        return self.rid.get(actual, ("unknown-id", actual))

    def store_lengths(self):
        a, b = M.store_bytes(self.t)
        return len(a), len(b)

    # ---------------------------------------------------------- report checks
    def _bind_report(self, report, out, what):
        """Compare created_webentities with the model's new groups; bind ids."""
        groups = self.m.take_groups()
        created = dict(getattr(report, "created_webentities", {}) or {})
        ids = sorted(created)
        # C12 / M5
        for i in ids:
            self.stats["ids_checked"] += 1
            if not isinstance(i, int) or i <= self.max_id:
                out.append(D(["C12"], "id-not-fresh", id=i, max_issued=self.max_id, op=what))
        if ids:
            self.max_id = max(self.max_id, max(ids))
        exp = [sorted(ps) for _, ps in groups]
        got = [sorted(created[i]) for i in ids]
        for i in ids:
            if len(set(created[i])) != len(created[i]):
                out.append(D(["C06", "C12"], "prefix-listed-twice", id=i, prefixes=created[i]))
        if sorted(exp) != sorted(got):
            out.append(D(["C06"], "created-webentities", op=what, expected=exp, got=got))
            raise Aborted()
        if exp != got:
            # same groups, created in another order inside this one request than the model assumed: the
            # statements do not fix the order in which one request treats its pages; ids are matched by content
            self.stats["creation_order_within_request_differs"] += 1
        by_content = {tuple(sorted(created[i])): i for i in ids}
        for gid, ps in groups:
            i = by_content[tuple(sorted(ps))]
            self.idmap[gid] = i
            self.rid[i] = gid
        self.stats["created_groups"] += len(groups)
        self.local["created_groups"] += len(groups)

    def _resolves_to_potential(self, lru, out):
        """C06: right after its insertion a page resolves to max(E, K)."""
        exp = self.m.potential(lru)
        try:
            got = self.t.retrieve_prefix(lru)
        except TraphException:
            got = False
        self.stats["C06_resolves_after_insert"] += 1
        if (got or False) != (exp or False):
            out.append(D(["C06"], "page-does-not-resolve-to-max(E,K)", lru=lru, got=got, expected=exp))

    def _check_new_pages(self, report, n, out, what):
        self.stats["reports_checked"] += 1
        try:
            self.last_report = (report.nb_created_pages, sorted((k, list(v)) for k, v in report.created_webentities.items()))
        except Exception:
            self.last_report = repr(report)
        got = getattr(report, "nb_created_pages", None)
        if got != n:
            out.append(D(["C01"], "nb_created_pages", op=what, expected=n, got=got))

    # ------------------------------------------------------------------ apply
    def apply(self, op):
        """Apply one operation to the real index and to the model."""
        out = []
        k = op["op"]
        self.opcount[k] += 1
        self.last_report = None
        t, m = self.t, self.m
        try:
            if k == "add_page":
                r = t.add_page(self.arg(op["lru"], op.get("as_str")), crawled=op["crawled"])
                n = m.add_page(op["lru"], op["crawled"])
                self._check_new_pages(r, n, out, k)
                self._bind_report(r, out, k)
                self._resolves_to_potential(op["lru"], out)
            elif k == "add_pages":
                r, order = self._observed(lambda: t.add_pages([self.arg(l, op.get("as_str")) for l in op["lrus"]], crawled=op["crawled"]))
                n = self._model_pages([(l, op["crawled"]) for l in op["lrus"]], order, out, k)
                self._check_new_pages(r, n, out, k)
                self._bind_report(r, out, k)
            elif k == "add_links":
                a = op.get("as_str")
                r, order = self._observed(lambda: t.add_links([(self.arg(s, a), self.arg(x, a)) for s, x in op["links"]]))
                n = self._model_pages([(l, False) for pair in op["links"] for l in pair], order, out, k)
                for s_, x in op["links"]:
                    m.links[(s_, x)] += 1
                self._check_new_pages(r, n, out, k)
                self._bind_report(r, out, k)
            elif k == "batch":
                data = {}
                a = op.get("as_str")
                for e in op["data"]:
                    s_, ts = e[0], e[1]
                    text_key = a or (len(e) > 2 and e[2])
                    tl = [self.arg(x, a) for x in ts]
                    if (len(ts) + len(s_)) % 5 == 0:
                        tl = tuple(tl)  # any sequence of targets, not only a list
                    data[self.arg(s_, text_key)] = tl
                r, order = self._observed(lambda: t.index_batch_crawl(data, yield_frequency=op.get("yf", 50)))
                named = []
                for e in op["data"]:
                    named.append((e[0], True))
                    named += [(x, False) for x in e[1]]
                n = self._model_pages(named, order, out, k)
                for e in op["data"]:
                    for x in e[1]:
                        m.links[(e[0], x)] += 1
                self._check_new_pages(r, n, out, k)
                self._bind_report(r, out, k)
            elif k == "create":
                before = dict(m.we)
                ok = m.create_webentity(op["prefixes"])
                try:
                    r = t.create_webentity([self.W(x) for x in op["prefixes"]])
                    got_ok = True
                    self.last_report = (r.nb_created_pages, sorted((k_, list(v)) for k_, v in r.created_webentities.items()))
                except TraphException:
                    got_ok = False
                self.stats["create_refused" if not ok else "create_accepted"] += 1
                if ok != got_ok:
                    out.append(D(["C04"], "create-refusal", prefixes=op["prefixes"], expected_accept=ok, got_accept=got_ok))
                    raise Aborted()
                if ok:
                    if len(r.created_webentities) != 1:
                        out.append(D(["C12"], "one-request-several-ids", got=dict(r.created_webentities)))
                    self._bind_report(r, out, k)
            elif k == "create_many":
                # one accepted creation request per prefix (all fresh): ids far beyond one or two bytes
                for p_ in op["prefixes"]:
                    m.create_webentity([p_])
                    r = t.create_webentity([p_])
                    if len(r.created_webentities) != 1:
                        out.append(D(["C12"], "one-request-several-ids", got=dict(r.created_webentities)))
                    self._bind_report(r, out, k)
                self.last_report = (0, len(op["prefixes"]))
            elif k == "delete":
                gid = m.we.get(op["of"])
                ps = [p for p in op["prefixes"] if m.we.get(p) == gid]
                if gid is None or not ps:
                    self.stats["ops_skipped"] += 1
                    return out
                if op.get("unchecked"):
                    t.delete_webentity(self.idmap[gid], [self.W(x) for x in ps], check_for_corruption=False)
                else:
                    t.delete_webentity(self.idmap[gid], [self.W(x) for x in ps])
                for p in ps:
                    del m.we[p]
            elif k == "addp":
                gid = m.we.get(op["of"])
                if gid is None:
                    self.stats["ops_skipped"] += 1
                    return out
                p = op["prefix"]
                m.ins(p)
                exp_ok = p not in m.we
                try:
                    t.add_prefix_to_webentity(self.W(p), self.idmap[gid])
                    got_ok = True
                except TraphException:
                    got_ok = False
                self.stats["addp_refused" if not exp_ok else "addp_accepted"] += 1
                if exp_ok != got_ok:
                    out.append(D(["C04"], "attach-refusal", prefix=p, expected_accept=exp_ok, got_accept=got_ok))
                    raise Aborted()
                if exp_ok:
                    m.we[p] = gid
            elif k == "rmp":
                p = op["prefix"]
                gid = m.we.get(p)
                if gid is None:
                    self.stats["ops_skipped"] += 1
                    return out
                if op.get("with_id", True):
                    t.remove_prefix_from_webentity(self.W(p), self.idmap[gid])
                else:
                    t.remove_prefix_from_webentity(self.W(p))
                m.ins(p)
                del m.we[p]
            elif k == "mvp":
                p = op["prefix"]
                src = m.we.get(p)
                dst = m.we.get(op["of"])
                mv = t.move_prefix_to_webentity_from_webentity if op.get("alias") else t.move_prefix_to_webentity
                if src is None and dst is not None and op.get("fresh"):
                    try:
                        mv(self.W(p), self.idmap[dst])
                    except TraphException:
                        # nothing states that such a move is accepted: a refusal ends the case without a verdict
                        self.stats["moves_of_unattached_prefix_refused"] += 1
                        raise Aborted()
                    m.ins(p)
                    m.we[p] = dst
                    self.stats["moves_of_unattached_prefix"] += 1
                    return out
                if src is None or dst is None:
                    self.stats["ops_skipped"] += 1
                    return out
                if op.get("with_src", True):
                    mv(self.W(p), self.idmap[dst], self.idmap[src])
                else:
                    mv(self.W(p), self.idmap[dst])
                m.we[p] = dst
            elif k in ("bad_delete", "bad_rmp", "bad_mvp"):
                # requests the library must refuse with its own error, leaving the attachments as they are
                gid = m.we.get(op["of"])
                if gid is None:
                    self.stats["ops_skipped"] += 1
                    return out
                before = dict(m.we)
                try:
                    if k == "bad_delete":
                        if all(m.we.get(p) == gid for p in op["prefixes"]):
                            self.stats["ops_skipped"] += 1
                            return out
                        t.delete_webentity(self.idmap[gid], list(op["prefixes"]))
                    elif k == "bad_rmp":
                        if m.we.get(op["prefix"]) == gid:
                            self.stats["ops_skipped"] += 1
                            return out
                        m.ins(op["prefix"])
                        before = dict(m.we)
                        t.remove_prefix_from_webentity(op["prefix"], self.idmap[gid])
                    else:
                        if m.we.get(op["prefix"]) == gid:
                            self.stats["ops_skipped"] += 1
                            return out
                        m.ins(op["prefix"])
                        before = dict(m.we)
                        others = sorted(set(self.idmap.values()) - {self.idmap[gid]})
                        target = others[0] if others else self.idmap[gid]
                        t.move_prefix_to_webentity(op["prefix"], target, self.idmap[gid])
                    refused = False
                except TraphException:
                    refused = True
                self.stats["refused_requests_checked"] += 1
                if not refused:
                    # Only "attaching a prefix that is already attached is refused" is stated; what an index does with
                    # the other ill-formed requests (a delete naming a foreign prefix, removing / moving a prefix with the
                    # wrong owner) is not: an implementation that accepts them is not judged, the case just ends here
                    # (the model cannot follow an unspecified effect).
                    self.stats["ill_formed_request_accepted_case_ended"] += 1
                    self.dead = True
                    return out
                # the attachments must be unchanged: checked against the real index right away
                got = {}
                for node, lru in t.webentity_prefix_iter():
                    got[lru] = self.tr(node.webentity())
                if got != before:
                    out.append(D(["C04"], "refused-request-changed-attachments", op=k,
                                 diff=sorted(set(got.items()) ^ set(before.items()), key=repr)[:6]))
                    raise Aborted()
            elif k == "rule":
                self._apply_rule(op, out)
            elif k == "rmrule":
                if op["anchor"] not in m.flags:
                    self.stats["ops_skipped"] += 1
                    return out
                t.remove_webentity_creation_rule(self.W(op["anchor"]))
                m.remove_rule(op["anchor"])
            elif k == "reopen":
                self.reopen(out)
            elif k == "touch":
                l = op["lru"]
                how = op.get("how", 0)
                try:
                    if how == 0:
                        t.get_webentity_by_prefix(l)
                    elif how == 1:
                        w_ = m.we.get(l)
                        if w_ is not None:
                            t.paginate_webentity_pages(self.idmap[w_], [l], page_count=2)
                            t.get_webentity_pages(self.idmap[w_], [l])
                        else:
                            t.get_page_links(l)
                    elif how == 2:
                        t.retrieve_webentity(l)
                        t.get_potential_prefix(l)
                    else:
                        w_ = m.we.get(l)
                        if w_ is not None:
                            t.get_webentity_child_webentities(self.idmap[w_], [l])
                            t.get_webentity_pagelinks(self.idmap[w_], [l], include_outbound=True)
                        else:
                            t.get_webentity_by_prefix(l)
                except TraphException:
                    pass
                self.stats["touch_reads_between_writes"] += 1
            elif k == "bystander":
                cfg2 = {"backend": "memory" if op.get("memory", True) else "file"}
                folder = None if op.get("memory", True) else tempfile.mkdtemp(prefix="vtby", dir=self.scratch)
                b = Traph(folder=folder, default_webentity_creation_rule=RX["subdomain"], webentity_creation_rules={})
                for l in op.get("pages", []):
                    b.add_page(l)
                if not hasattr(self, "bystanders"):
                    self.bystanders = []
                self.bystanders.append((b, folder))
                self.stats["bystander_indexes_opened"] += 1
            elif k == "addp_foreign":
                p = op["prefix"]
                m.ins(p)
                if p in m.we:
                    self.stats["ops_skipped"] += 1
                    return out
                try:
                    t.add_prefix_to_webentity(p, op["id"])
                except TraphException:
                    # an index may refuse ids it never issued: unspecified, not judged
                    self.stats["foreign_id_refused"] += 1
                    return out
                gid = -op["id"]
                m.we[p] = gid
                self.idmap[gid] = op["id"]
                self.rid[op["id"]] = gid
                self.stats["foreign_ids_attached"] += 1
            elif k == "overwrite_open":
                rules = {a: RX[r] for a, r in op["rules"]}
                t.close()
                self.t = Traph(folder=self.folder, overwrite=True, encoding=self.cfg.get("encoding", "utf-8"),
                               default_webentity_creation_rule=RX[op["default"]], webentity_creation_rules=self.rule_keys(rules))
                m.clear(RX[op["default"]], rules)
                m.take_groups()
                self.max_id = 0
                self.idmap = {}
                self.rid = {}
                self.stats["overwrite_opens"] += 1
            elif k == "clear":
                rules = None if op["rules"] is None else {a: RX[r] for a, r in op["rules"]}
                dflt = RX[op["default"]] if op["default"] else None
                t.clear(dflt, dict(rules) if rules is not None else None)
                m.clear(dflt, rules)
                m.take_groups()
                self.max_id = 0
                self.idmap = {}
                self.rid = {}
            else:
                raise ValueError(k)
        except Aborted:
            self.dead = True
        except Exception as e:
            props = {
                "add_page": ["C01"], "add_pages": ["C01"], "add_links": ["C01", "C03"],
                "batch": ["C01", "C03"], "create": ["C04"], "delete": ["C04"], "addp": ["C04"],
                "rmp": ["C04"], "mvp": ["C04"], "rule": ["C06"], "rmrule": ["C06"],
                "reopen": ["C11"], "clear": ["C11"], "bad_delete": ["C04"], "bad_rmp": ["C04"], "bad_mvp": ["C04"],
                "overwrite_open": ["C11"], "bystander": ["C12"], "addp_foreign": ["C04"], "touch": ["C14"], "create_many": ["C12", "C04"],
            }[k]
            out.append(D(props, "exception-in-write", op=k, exc=type(e).__name__, msg=str(e)[:200],
                         tb=traceback.format_exc()[-600:], backend=self.cfg["backend"]))
            self.dead = True
        return out

    def _observed(self, fn):
        """Run fn() while recording the page insertions the index performs, in order:
        [(lru, crawled)].  Returns (result, order or None when the entry point is absent)."""
        trie = getattr(self.t, "lru_trie", None)
        orig = getattr(trie, "add_page", None)
        order = []
        wrapped = False
        if orig is not None:
            def rec(*a, _o=orig, _l=order, **k):
                lru = a[0] if a else k.get("lru")
                crawled = a[1] if len(a) > 1 else k.get("crawled", False)
                _l.append((lru, bool(crawled)))
                return _o(*a, **k)

            try:
                trie.add_page = rec
                wrapped = True
            except Exception:
                wrapped = False
        try:
            r = fn()
        finally:
            if wrapped:
                try:
                    del trie.add_page
                except Exception:
                    pass
        return r, (order if wrapped else None)

    def _model_pages(self, named, order, out, what):
        """Advance the model by the page insertions of one request.  `named`: [(lru, crawled)] in the
        order the statement suggests; `order`: what the index was seen doing (or None).  The order in
        which one request treats its pages is not specified, so the observed one is replayed; it must
        name exactly the pages of the request."""
        m = self.m
        use = named
        if order:
            # The observation ORDERS the model's insertions and never judges: an implementation may treat
            # known pages without going through the hooked entry point (a read-only fast path, a bulk
            # loader), so what was seen can be a part of the request only.  Observed pages first, in the
            # observed order; then the named pages that were not seen, in the named order (the model's
            # insertion is idempotent); pages seen but not named are ignored here - if the index really
            # holds a page nobody named, the page audits report it on their own terms.
            names = {l for l, _ in named}
            crawled = {}
            for l, c in named:
                crawled[l] = crawled.get(l, False) or c
            seen = set()
            use = []
            for l, c in order:
                if l in names:
                    use.append((l, False))  # crawled marks come from the request as named, not from what was observed
                    seen.add(l)
            if seen != names:
                self.stats["insertion_order_partly_observed"] += 1
            use += [(l, False) for l, _ in named if l not in seen]
            # marks a request sets without re-inserting (a batch source met earlier as a target)
            use += [(l, True) for l, c in crawled.items() if c]
            self.stats["insertion_order_observed"] += 1
        n = 0
        for l, c in use:
            n += m.add_page(l, c)
        return n

    def _apply_rule(self, op, out):
        t, m = self.t, self.m
        a = op["anchor"]
        order = []
        trie = getattr(t, "lru_trie", None)
        orig = getattr(trie, "add_page", None)
        wrapped = False
        if orig is not None:
            def rec(*a, _o=orig, _l=order, **k):
                _l.append(a[0] if a else k.get("lru"))
                return _o(*a, **k)

            try:
                trie.add_page = rec
                wrapped = True
            except Exception:
                wrapped = False
        try:
            r = t.add_webentity_creation_rule(self.W(a), RX[op["rule"]])
        finally:
            if wrapped:
                try:
                    del trie.add_page
                except Exception:
                    pass
        under = m.pages_under(a)
        self.stats["rule_installs"] += 1
        if under:
            self.stats["rule_installs_on_pages"] += 1
        use = None
        if wrapped and order:
            # as above: the observed re-insertions order the model, they are not compared with the pages below the anchor
            u = set(under)
            seen = []
            for l in order:
                if l in u and l not in seen:
                    seen.append(l)
            use = seen + [l for l in sorted(under) if l not in set(seen)]
            if len(seen) != len(under):
                self.stats["rule_order_partly_observed"] += 1
            self.stats["rule_order_observed"] += 1
        else:
            self.stats["rule_order_unobserved"] += 1
        m.add_rule(a, RX[op["rule"]], order=use)
        self._check_new_pages(r, 0, out, "rule")
        self._bind_report(r, out, "rule")

    def reopen(self, out=None):
        out = [] if out is None else out
        t, m = self.t, self.m
        t.close()
        self.closed_sizes = (os.path.getsize(os.path.join(self.folder, "lru_trie.dat")), os.path.getsize(os.path.join(self.folder, "link_store.dat")))
        rules = {a: m.rules[a].pattern for a in sorted(m.flags)}
        names = sorted(rules)
        late_names = set(names[1::2]) if self.local["reopens"] % 2 == 1 else set()
        early = {a: rules[a] for a in names if a not in late_names}
        late = {a: rules[a] for a in names if a in late_names}
        self.t = Traph(
            folder=self.folder,
            overwrite=False,
            encoding=self.cfg.get("encoding", "utf-8"),
            default_webentity_creation_rule=m.default_pattern,
            webentity_creation_rules=self.rule_keys(early),
        )
        # the other way a client re-registers the rules of an existing index: the public
        # write_in_trie=False form, which must only fill the in-memory table (no write, no webentity)
        for a in sorted(late):
            before = M.store_bytes(self.t) if len(late) <= 4 else None
            r = self.t.add_webentity_creation_rule(self.W(a), late[a], write_in_trie=False)
            self.stats["late_rule_registrations"] += 1
            created = getattr(r, "created_webentities", None)
            if created:
                out.append(D(["C06"], "rule-registration-without-trie-write-created-webentities",
                             anchor=a, created=repr(created)[:200]))
                raise Aborted()
            if before is not None and M.store_bytes(self.t) != before:
                out.append(D(["C06", "C11"], "rule-registration-without-trie-write-changed-the-stores", anchor=a))
                raise Aborted()
        m.rules = {a: m.rules[a] for a in m.flags}
        self.stats["reopens"] += 1
        self.local["reopens"] += 1

    # ------------------------------------------------------------------ audit
    def decoded(self):
        a, b = M.store_bytes(self.t)
        self.stats["decodes"] += 1
        return decode(a, b), a, b

    def audit(self, rng, props, known=None):
        """Run the audits relevant to `props` (set of ids). Returns discrepancies."""
        out = []
        if self.dead:
            return out
        props = set(props)
        t, m = self.t, self.m
        self._qrng = rng
        self.stats["audits"] += 1
        dec = None
        if props & {"C01", "C02", "C03", "C04", "C06", "C12", "C19", "C13"}:
            try:
                dec, tb, lb = self.decoded()
            except Exception as e:
                out.append(D(["C02"], "decoder-crash", exc=repr(e)))
        owner = m.page_owner()
        byw = m.webentities()
        # structural invariants first: on a damaged structure the library's own traversals may fail or
        # never return, so the bytes are judged before any of them is called
        broken = set()
        if dec is not None and dec.errors:
            for f, codes in (("C02", ("S1", "S2", "S3", "S4", "S5")), ("C03", ("S7", "S2")), ("C19", ("S3", "S7-orphan"))):
                if f in props and any(c.startswith(codes) for c, _ in dec.errors):
                    self.structural(dec, out, [f], codes)
                    broken.add(f)
        for f in ("C01", "C02", "C03", "C04", "C05", "C06", "C07", "C08", "C13", "C19", "C20"):
            if f in props and f not in broken:
                try:
                    getattr(self, "audit_" + f)(rng, out, dec, owner, byw)
                except Exception as e:
                    out.append(D([f], "exception-in-query", exc=type(e).__name__, msg=str(e)[:200],
                                 tb=traceback.format_exc()[-700:], backend=self.cfg["backend"]))
        return out

    def stored_lrus(self, dec=None):
        """Stem-prefixes actually stored: all the model's, minus those named only by refused requests that
        the index did not keep (read from the decoder, else from the traversal)."""
        m = self.m
        if not m.optional:
            return set(m.nodes)
        if dec is not None and not dec.errors:
            return set(dec.lrus)
        try:
            return {l for _, l in self.t.lru_trie.dfs_iter()}
        except Exception:
            return set(m.nodes)

    def structural(self, dec, out, props, codes):
        for code, text in dec.errors:
            if any(code.startswith(c) for c in codes):
                out.append(D(props, "structure:" + code, text=text))

    # -- C01
    def audit_C01(self, rng, out, dec, owner, byw):
        t, m = self.t, self.m
        got = []
        marks = {}
        if rng.random() < 0.5:
            for node, lru in t.pages_iter():
                got.append(lru)
                marks[lru] = bool(node.is_crawled())
        else:
            # lazy enumeration advanced in turns with a second one and with counts
            self.stats["C01_interleaved_enumerations"] += 1
            g2 = t.pages_iter()
            second = []
            for node, lru in t.pages_iter():
                got.append(lru)
                marks[lru] = bool(node.is_crawled())
                nxt = next(g2, None)
                if nxt is not None:
                    second.append(nxt[1])
                if rng.random() < 0.2:
                    t.count_pages()
            second += [l for _, l in g2]
            if second != got:
                out.append(D(["C01"], "two-enumerations-disagree", first=len(got), second=len(second)))
        self.stats["C01_pages_compared"] += len(m.pages)
        if Counter(got) != Counter(m.pages.keys()):
            c = Counter(got)
            out.append(D(["C01"], "page-set", missing=sorted(set(m.pages) - set(got))[:5],
                         invented=sorted(set(got) - set(m.pages))[:5],
                         duplicated=sorted(k for k, v in c.items() if v > 1)[:5]))
        else:
            bad = [p for p in m.pages if marks[p] != m.pages[p]]
            if bad:
                out.append(D(["C01"], "crawled-mark", pages=sorted(bad)[:5], expected=[m.pages[p] for p in sorted(bad)[:5]]))
        n = t.count_pages()
        if n != len(m.pages):
            out.append(D(["C01"], "count_pages", got=n, expected=len(m.pages)))
        n = t.count_crawled_pages()
        if n != sum(m.pages.values()):
            out.append(D(["C01"], "count_crawled_pages", got=n, expected=sum(m.pages.values())))
        if dec is not None and dec.pages != m.pages and not any(c.startswith("S") for c, _ in dec.errors):
            out.append(D(["C01"], "decoder-pages", diff=sorted(set(dec.pages.items()) ^ set(m.pages.items()))[:5]))

    # -- C02
    def audit_C02(self, rng, out, dec, owner, byw):
        t, m = self.t, self.m
        trie = getattr(t, "lru_trie", None)
        if trie is None or not all(hasattr(trie, n) for n in ("dfs_iter", "lru_node", "windup_lru")):
            # the three access paths were renamed: the monitor reports itself absent; the decoder part
            # below and the public-API part (get_webentity_by_prefix on every attached prefix) carry on
            self.stats["C02_access_paths_absent"] += 1
            for p_, g in m.we.items():
                try:
                    w = t.get_webentity_by_prefix(p_)
                except TraphException:
                    w = None
                if self.tr(w) != g:
                    out.append(D(["C02", "C04"], "get_webentity_by_prefix", lru=p_, got=w, expected_gid=g))
                    break
            if dec is not None:
                self.structural(dec, out, ["C02"], ("S1", "S2", "S3", "S4", "S5"))
                if not (m.required_nodes() <= set(dec.lrus) <= m.nodes) and not dec.errors:
                    out.append(D(["C02"], "decoder-lrus", missing=sorted(m.required_nodes() - set(dec.lrus))[:5], extra=sorted(set(dec.lrus) - m.nodes)[:5]))
            return
        listed = [lru for _, lru in trie.dfs_iter()]
        self.stats["C02_nodes_compared"] += len(m.nodes)
        c = Counter(listed)
        req = m.required_nodes()
        if not (req <= set(listed) <= m.nodes) or any(v > 1 for v in c.values()):
            out.append(D(["C02"], "traversal-set", missing=sorted(req - set(listed))[:5],
                         extra=sorted(set(listed) - m.nodes)[:5], twice=sorted(k for k, v in c.items() if v > 1)[:5]))
        present = set(listed)
        for p in sorted(present & m.nodes):
            n = trie.lru_node(p)
            if n is None:
                out.append(D(["C02"], "lookup-miss", lru=p))
                break
            back = trie.windup_lru(n.block)
            if back != p:
                out.append(D(["C02"], "windup-differs", lru=p, got=back))
                break
            self.stats["C02_lookups"] += 1
            # the resolution walk is a further copy of the sibling search: it must land on the same entry
            fl = getattr(trie, "follow_lru", None)
            if fl is not None:
                n2, _ = fl(p)
                self.stats["C02_follow_lookups"] += 1
                if n2 is None or n2.block != n.block:
                    out.append(D(["C02", "C04"], "resolution-walk-lands-elsewhere", lru=p[-40:], block=n.block, got=None if n2 is None else n2.block))
                    break
        for p in sorted(m.optional - present)[:10]:
            if trie.lru_node(p) is not None:
                out.append(D(["C02"], "found-by-lookup-but-not-by-traversal", lru=p))
        sample = sorted(present)
        rng.shuffle(sample)
        for p in sample[:25]:
            for q in neighbours(rng, p):
                if q in m.nodes:
                    continue
                self.stats["C02_absent_probes"] += 1
                if trie.lru_node(q) is not None:
                    out.append(D(["C02"], "absent-found", lru=q))
                    break
        for p in sample[:40]:
            try:
                w = t.get_webentity_by_prefix(p)
            except TraphException:
                w = None
            if self.tr(w) != m.we.get(p):
                out.append(D(["C02", "C04"], "get_webentity_by_prefix", lru=p, got=w, expected_gid=m.we.get(p)))
                break
        if dec is not None:
            self.structural(dec, out, ["C02"], ("S1", "S2", "S3", "S4", "S5"))
            if set(dec.lrus) != present and not dec.errors:
                out.append(D(["C02"], "decoder-lrus", missing=sorted(present - set(dec.lrus))[:5], extra=sorted(set(dec.lrus) - present)[:5]))

    # -- C03
    def audit_C03(self, rng, out, dec, owner, byw):
        t, m = self.t, self.m
        exp = Counter(m.links)
        outs = defaultdict(Counter)
        ins = defaultdict(Counter)
        for (s, x), c in exp.items():
            outs[s][x] += c
            ins[x][s] += c
        pages = list(m.pages)
        if len(pages) > 60:
            # a sample, but always with the pages that carry the longest link lists (thresholds on one page's chain)
            top = sorted(pages, key=lambda q: -(sum(outs[q].values()) + sum(ins[q].values())))[:6]
            top += sorted(pages, key=lambda q: -(len(outs[q]) + len(ins[q])))[:4]
            rng.shuffle(pages)
            pages = list(dict.fromkeys(top + pages[:60]))
        for p in pages:
            for ib, ii, io in SWITCHES7:
                got = t.get_page_links(self.Q(p), include_inbound=bool(ib), include_internal=bool(ii), include_outbound=bool(io))
                e = []
                for x, c in outs[p].items():
                    if (x == p and ii) or (x != p and io):
                        e.append((p, x, c))
                if ib:
                    for s, c in ins[p].items():
                        if s != p:
                            e.append((s, p, c))
                g = [tuple(x) for x in got]
                self.stats["C03_page_link_answers"] += 1
                if sorted(g) != sorted(e):
                    out.append(D(["C03"], "get_page_links", page=p, switches=(ib, ii, io), got=sorted(g)[:6], expected=sorted(e)[:6]))
                    return
            e_in = {s: c for s, c in ins[p].items() if s != p}
            e_out = {x: c for x, c in outs[p].items() if x != p}
            self_w = outs[p].get(p, 0)
            checks = [
                ("indegree", t.get_page_indegree(p), len(e_in)),
                ("indegree_w", t.get_page_indegree(p, weighted=True), sum(e_in.values())),
                ("outdegree", t.get_page_outdegree(p), len(e_out)),
                ("outdegree_w", t.get_page_outdegree(p, weighted=True), sum(e_out.values())),
                ("degree", t.get_page_degree(p), len(e_in) + len(e_out) + (1 if self_w else 0)),
                ("degree_w", t.get_page_degree(p, weighted=True), sum(e_in.values()) + sum(e_out.values()) + self_w),
            ]
            for name, g, e in checks:
                self.stats["C03_degree_answers"] += 1
                if g != e:
                    out.append(D(["C03"], "degree", which=name, page=p, got=g, expected=e))
                    return
        n = t.count_links()
        if n != sum(exp.values()):
            out.append(D(["C03"], "count_links", got=n, expected=sum(exp.values())))
        if rng.random() < 0.5:
            lo = list(t.links_iter(out=True))
            li = [(b, a) for a, b in t.links_iter(out=False)]
        else:
            # the enumerations are lazy: advance both in turns, with other link
            # reads in between (a reader must not disturb a suspended one)
            lo, li = [], []
            go, gi = t.links_iter(out=True), t.links_iter(out=False)
            alive = [True, True]
            self.stats["C03_interleaved_enumerations"] += 1
            while alive[0] or alive[1]:
                if alive[0]:
                    try:
                        lo.append(next(go))
                    except StopIteration:
                        alive[0] = False
                if pages and rng.random() < 0.5:
                    q = rng.choice(pages)
                    t.get_page_links(q)
                    t.get_page_indegree(q)
                if alive[1]:
                    try:
                        a, b = next(gi)
                        li.append((b, a))
                    except StopIteration:
                        alive[1] = False
        self.stats["C03_link_pairs_compared"] += len(exp)
        if sorted(lo) != sorted(exp.keys()):
            out.append(D(["C03"], "links_iter-out", got=len(lo), expected=len(exp)))
        if sorted(li) != sorted(exp.keys()):
            out.append(D(["C03"], "links_iter-in", got=len(li), expected=len(exp)))
        if dec is not None:
            self.structural(dec, out, ["C03"], ("S7",))
            if not any(c.startswith("S7") or c in ("S2", "S3") for c, _ in dec.errors):
                if dec.out != exp:
                    out.append(D(["C03"], "decoder-outbound", diff=len((dec.out - exp) + (exp - dec.out))))
                if dec.inn != exp:
                    out.append(D(["C03"], "decoder-inbound", diff=len((dec.inn - exp) + (exp - dec.inn))))

    # -- C04
    def queries(self, rng, n_absent=12):
        m = self.m
        qs = list(m.pages)
        rng.shuffle(qs)
        qs = qs[:40]
        nodes = sorted(m.nodes)
        rng.shuffle(nodes)
        qs += nodes[:15]
        for p in nodes[:n_absent]:
            qs += neighbours(rng, p)[:3]
        return qs

    def audit_C04(self, rng, out, dec, owner, byw):
        t, m = self.t, self.m
        wep = {}
        for node, lru in t.webentity_prefix_iter():
            wep[lru] = self.tr(node.webentity())
        if wep != m.we:
            out.append(D(["C04"], "webentity_prefix_iter", diff=sorted(set(wep.items()) ^ set(m.we.items()), key=repr)[:6]))
        if dec is not None and not dec.errors:
            dwe = {l: self.tr(w) for l, w in dec.we.items()}
            if dwe != m.we:
                out.append(D(["C04"], "decoder-prefixes", diff=sorted(set(dwe.items()) ^ set(m.we.items()), key=repr)[:6]))
        for q in self.queries(rng):
            ew, ep = m.resolve(q)
            try:
                gw = self.tr(t.retrieve_webentity(self.Q(q)))
            except TraphException:
                gw = None
            try:
                gp = t.retrieve_prefix(self.Q(q))
            except TraphException:
                gp = None
            self.stats["C04_resolutions"] += 1
            if ew is None:
                self.stats["C04_resolutions_none"] += 1
            if (gw, gp) != (ew, ep):
                out.append(D(["C04"], "resolution", lru=q, got=(gw, gp), expected=(ew, ep)))
                break

    # -- C05
    def audit_C05(self, rng, out, dec, owner, byw):
        t, m = self.t, self.m
        union = Counter()
        for gid, ps in byw.items():
            ps = list(ps)
            rng.shuffle(ps)
            w = self.idmap[gid]
            got = t.get_webentity_pages(w, self.QL(ps, True))
            exp = m.we_pages(gid, owner)
            gl = [x["lru"] for x in got]
            union.update(gl)
            self.stats["C05_webentities"] += 1
            if len(gl) != len(set(gl)) or {x["lru"]: bool(x["crawled"]) for x in got} != exp:
                out.append(D(["C05"], "webentity-pages", gid=gid, prefixes=ps, got=sorted(gl)[:6], expected=sorted(exp)[:6],
                             n_got=len(gl), n_expected=len(exp)))
                return
            gc = t.get_webentity_crawled_pages(w, self.QL(ps, True))
            gcl = [x["lru"] for x in gc]
            if sorted(gcl) != sorted(p for p, c in exp.items() if c) or not all(x["crawled"] for x in gc):
                out.append(D(["C05"], "webentity-crawled-pages", gid=gid, got=sorted(gcl)[:6]))
                return
        # "a page is listed under W iff resolving the page returns W": every page (at most 80 per audit) is also
        # resolved through the resolution request itself, audit after audit (an answer remembered from an
        # earlier audit must not survive the detachments in between)
        plist = sorted(owner)
        if len(plist) > 80:
            plist = rng.sample(plist, 80)
        for p_ in plist:
            try:
                gw = self.tr(t.retrieve_webentity(p_))
            except TraphException:
                gw = None
            self.stats["C05_pages_resolved"] += 1
            if gw != owner[p_][0]:
                out.append(D(["C05"], "listing-and-resolution-disagree", lru=p_, resolves_to=gw, listed_under=owner[p_][0]))
                return
        # the lazy per-webentity enumerations of two webentities advanced in turns must not disturb each other
        gl2 = sorted(byw)
        if len(gl2) >= 2 and hasattr(t, "webentity_page_nodes_iter"):
            g1, g2 = rng.sample(gl2, 2)
            its = [(g1, t.webentity_page_nodes_iter(self.idmap[g1], sorted(byw[g1])), []), (g2, t.webentity_page_nodes_iter(self.idmap[g2], sorted(byw[g2])), [])]
            alive = [True, True]
            self.stats["C05_interleaved_listings"] += 1
            while any(alive):
                for k_, (g_, it, acc) in enumerate(its):
                    if alive[k_]:
                        nxt = next(it, None)
                        if nxt is None:
                            alive[k_] = False
                        else:
                            acc.append(nxt[1])
            for g_, it, acc in its:
                if Counter(acc) != Counter(m.we_pages(g_, owner).keys()):
                    out.append(D(["C05"], "interleaved-webentity-listings", gid=g_, n_got=len(acc), n_expected=len(m.we_pages(g_, owner))))
                    return
        expu = Counter(p for p, (w, _) in owner.items() if w is not None)
        if union != expu:
            out.append(D(["C05"], "partition", diff=sorted((union - expu) + (expu - union))[:6]))

    # -- C06
    def audit_C06(self, rng, out, dec, owner, byw):
        t, m = self.t, self.m
        if dec is not None and not dec.errors and dec.rules != m.flags:
            out.append(D(["C06"], "rule-anchors", got=sorted(dec.rules)[:5], expected=sorted(m.flags)[:5]))
        for q in self.queries(rng):
            w0 = M.WRITES[0]
            got = t.get_potential_prefix(self.Q(q))
            exp = m.potential(q)
            self.stats["C06_potential"] += 1
            if M.WRITES[0] != w0:
                out.append(D(["C06", "C14"], "potential-prefix-wrote", lru=q))
                break
            if got != exp and not (not got and not exp):
                out.append(D(["C06"], "potential-prefix", lru=q, got=got, expected=exp))
                break

    # -- C07
    @staticmethod
    def flat(g):
        return Counter({(a, b): c for a, d in g.items() for b, c in d.items() if not isinstance(b, str)})

    def audit_C07(self, rng, out, dec, owner, byw):
        t, m = self.t, self.m
        for o in (True, False):
            for auto in (True, False):
                e = m.network(o, auto, owner)
                for name, fn in (("fast", t.get_webentities_links), ("slow", t.get_webentities_links_slow)):
                    g = fn(out=o, include_auto=auto)
                    got = Counter({(self.tr(a), self.tr(b)): c for (a, b), c in self.flat(g).items() if c})
                    self.stats["C07_networks"] += 1
                    if got != e:
                        out.append(D(["C07"], "network", variant=name, out=o, auto=auto,
                                     diff=sorted(((got - e) + (e - got)).items(), key=repr)[:6]))
                        return
                    if name == "fast":
                        tallies = {}
                        for a, dct in g.items():
                            tallies[self.tr(a)] = (dct.get("pages_crawled", 0), dct.get("pages_uncrawled", 0))
                        et = defaultdict(lambda: [0, 0])
                        for p, (w, _) in owner.items():
                            if w is not None:
                                et[w][0 if m.pages[p] else 1] += 1
                        et = {k: tuple(v) for k, v in et.items()}
                        tallies = {k: v for k, v in tallies.items() if v != (0, 0)}
                        if tallies != et:
                            out.append(D(["C07"], "page-tallies", got=sorted(tallies.items(), key=repr)[:5], expected=sorted(et.items(), key=repr)[:5]))
                            return
        for auto in (True, False):
            a = self.flat(t.get_webentities_outlinks(include_auto=auto))
            b = self.flat(t.get_webentities_inlinks(include_auto=auto))
            tb = Counter({(y, x): c for (x, y), c in b.items()})
            self.stats["C07_transposes"] += 1
            if a != tb:
                out.append(D(["C07"], "transpose", auto=auto))
                return
            # every other entry point to the same network (the generator forms, drained; the in/out aliases)
            def drain(gen):
                last = None
                for st in gen:
                    last = st
                return last.result

            forms = []
            for nm, call in (("get_webentities_outlinks_iter", lambda: drain(t.get_webentities_outlinks_iter(include_auto=auto))),
                             ("get_webentities_links_iter(out=True)", lambda: drain(t.get_webentities_links_iter(out=True, include_auto=auto))),
                             ("get_webentities_links_slow_iter(out=True)", lambda: drain(t.get_webentities_links_slow_iter(out=True, include_auto=auto)))):
                if hasattr(t, nm.split("(")[0]):
                    forms.append((nm, call, a))
            for nm, call in (("get_webentities_inlinks_iter", lambda: drain(t.get_webentities_inlinks_iter(include_auto=auto))),
                             ("get_webentities_links_iter(out=False)", lambda: drain(t.get_webentities_links_iter(out=False, include_auto=auto))),
                             ("get_webentities_links_slow_iter(out=False)", lambda: drain(t.get_webentities_links_slow_iter(out=False, include_auto=auto)))):
                if hasattr(t, nm.split("(")[0]):
                    forms.append((nm, call, b))
            for nm, call, ref in forms:
                got = self.flat(call())
                self.stats["C07_entry_point_forms"] += 1
                if Counter({k: v for k, v in got.items() if v}) != Counter({k: v for k, v in ref.items() if v}):
                    out.append(D(["C07"], "network-entry-points-disagree", form=nm, auto=auto,
                                 diff=sorted(((got - ref) + (ref - got)).items(), key=repr)[:6]))
                    return

    # -- C08
    def audit_C08(self, rng, out, dec, owner, byw):
        t, m = self.t, self.m
        for gid, ps in byw.items():
            ps = list(ps)
            rng.shuffle(ps)
            w = self.idmap[gid]
            for ib, ii, io in SWITCHES7:
                got = Counter()
                lst = t.get_webentity_pagelinks(w, self.QL(ps, True), include_inbound=bool(ib), include_internal=bool(ii), include_outbound=bool(io))
                for s, x, wt in lst:
                    got[(s, x)] += wt
                e = m.we_pagelinks(gid, ii, io, ib, owner)
                self.stats["C08_pagelink_answers"] += 1
                if got != e or len(lst) != len(e):
                    out.append(D(["C08"], "webentity-pagelinks", gid=gid, switches=(ib, ii, io), n_got=len(lst), n_expected=len(e),
                                 diff=sorted(((got - e) + (e - got)).items())[:5]))
                    return
            cited = {owner[x][0] for (s, x) in m.links if owner[s][0] == gid} - {None}
            citing = {owner[s][0] for (s, x) in m.links if owner[x][0] == gid} - {None}
            go = {self.tr(x) for x in t.get_webentity_outlinks(w, self.QL(ps, True))} - {None}
            gi = {self.tr(x) for x in t.get_webentity_inlinks(w, self.QL(ps, True))} - {None}
            self.stats["C08_cited_sets"] += 1
            if go != cited:
                out.append(D(["C08"], "cited-webentities", gid=gid, got=sorted(go, key=repr), expected=sorted(cited)))
                return
            if gi != citing:
                out.append(D(["C08"], "citing-webentities", gid=gid, got=sorted(gi, key=repr), expected=sorted(citing)))
                return
            # the degree helpers are defined on the returned sets (whatever they contain)
            ro, ri = t.get_webentity_outlinks(w, ps), t.get_webentity_inlinks(w, ps)
            dg = (t.get_webentity_outdegree(w, ps), t.get_webentity_indegree(w, ps), t.get_webentity_degree(w, ps))
            if dg != (len(ro), len(ri), len(ro) + len(ri)):
                out.append(D(["C08"], "webentity-degree-helpers", gid=gid, got=dg, sets=(len(ro), len(ri))))
                return

    # -- C13
    def audit_C13(self, rng, out, dec, owner, byw):
        t, m = self.t, self.m
        for gid, ps in byw.items():
            ps = list(ps)
            rng.shuffle(ps)
            w = self.idmap[gid]
            ch = {self.tr(x) for x in t.get_webentity_child_webentities(w, self.QL(ps, True))}
            pa = {self.tr(x) for x in t.get_webentity_parent_webentities(w, self.QL(ps, True))}
            ech = m.children(gid)
            epa = m.parents(gid)
            self.stats["C13_webentities"] += 1
            self.stats["C13_children_expected"] += len(ech)
            if ch != ech:
                out.append(D(["C13"], "children", gid=gid, prefixes=ps, got=sorted(ch, key=repr), expected=sorted(ech),
                             hidden=[p for p, g in m.we.items() if g in ech - ch][:4]))
                return
            if pa != epa:
                out.append(D(["C13"], "parents", gid=gid, prefixes=ps, got=sorted(pa, key=repr), expected=sorted(epa)))
                return
        # Latent damage made observable: a stored stem-prefix X marked "no webentity below" although a
        # webentity prefix D lies below it hides D from any webentity attached at or above X.  When
        # none is attached yet, attach a fresh one at X (a legitimate continuation of the history) and ask.
        if dec is not None and not dec.errors:
            for dlru, dg in sorted(m.we.items()):
                for x in prefixes_of(dlru)[:-1]:
                    if dec.nochild.get(x) and x not in m.we:
                        self.stats["C13_latent_marks_probed"] += 1
                        ds = self.apply({"op": "create", "prefixes": [x]})
                        if ds or self.dead:
                            out.extend(ds)
                            return
                        gid = m.we[x]
                        ch = {self.tr(v) for v in t.get_webentity_child_webentities(self.idmap[gid], [x])}
                        ech = m.children(gid)
                        if ch != ech:
                            out.append(D(["C13"], "children-after-attaching-at-marked-node", node=x, hidden=dlru,
                                         got=sorted(ch, key=repr), expected=sorted(ech)))
                        return

    # -- C19
    def audit_C19(self, rng, out, dec, owner, byw):
        t, m = self.t, self.m
        tl, ll = self.store_lengths()
        stored = self.stored_lrus(dec)
        et = m.trie_blocks(stored) * 128
        el = (1 + 2 * sum(m.links.values())) * 16
        self.stats["C19_accountings"] += 1
        if not (m.required_nodes() <= stored <= m.nodes):
            out.append(D(["C19"], "stored-stem-prefixes", missing=sorted(m.required_nodes() - stored)[:4], invented=sorted(stored - m.nodes)[:4]))
        if tl != et:
            out.append(D(["C19"], "trie-size", got_blocks=tl / 128.0, expected_blocks=et // 128))
        if ll != el:
            out.append(D(["C19"], "link-size", got_blocks=ll / 16.0, expected_blocks=el // 16))
        if dec is not None:
            self.structural(dec, out, ["C19"], ("S3-stray", "S3", "S7-orphan"))
        if m.nodes:
            mt = t.metrics()
            self.stats["C19_metrics"] += 1
            checks = [
                ("nb_pages", mt["lru_trie"]["nb_pages"], len(m.pages)),
                ("nb_crawled_pages", mt["lru_trie"]["nb_crawled_pages"], sum(m.pages.values())),
                ("nb_tail_nodes", mt["lru_trie"]["nb_tail_nodes"], m.tail_blocks(stored)),
                ("nb_nodes", mt["lru_trie"]["nb_nodes"], m.trie_blocks(stored) - 1),
                ("nb_links", mt["link_store"]["nb_links"], sum(m.links.values())),
            ]
            for name, g, e in checks:
                if g != e:
                    out.append(D(["C19"], "metrics", which=name, got=g, expected=e))
        n = t.count_links()
        if n != sum(m.links.values()):
            out.append(D(["C19"], "count_links", got=n, expected=sum(m.links.values())))

    # -- C20
    def audit_C20(self, rng, out, dec, owner, byw):
        t, m = self.t, self.m
        ind = m.indegrees()
        for gid, ps in byw.items():
            ps = list(ps)
            rng.shuffle(ps)
            w = self.idmap[gid]
            pages = m.we_pages(gid, owner)
            for k in (1, 2, 3, 5, 10, len(pages) + 1):
                for depth in (None, 0, 1, 2):
                    elig = []
                    for p in pages:
                        pre = owner[p][1]
                        below = len(stems(p)) - len(stems(pre))
                        if depth is None or below <= depth:
                            elig.append(p)
                    ans = t.get_webentity_most_linked_pages(w, self.QL(ps, True), pages_count=k, max_depth=depth)
                    self.stats["C20_answers"] += 1
                    if any(ind[p] == 0 for p in elig):
                        self.stats["C20_answers_with_unlinked_eligible"] += 1
                    err = topk_error(ans, elig, k, lambda p: ind[p])
                    if err:
                        err1 = topk_error(ans, elig, k, lambda p: max(ind[p], 1))
                        if err1 is None:
                            out.append(D(["C20"], "KNOWN:F7-indegree-floor-1", gid=gid, k=k, depth=depth, true_error=err))
                        else:
                            out.append(D(["C20"], "most-linked", gid=gid, k=k, depth=depth, prefixes=ps, error=err,
                                         answer=[(x["lru"], x["indegree"]) for x in ans][:6]))
                            return


def topk_error(ans, eligible, k, deg):
    """None if `ans` is a correct top-k of `eligible` under degree function deg."""
    lrus = [x["lru"] for x in ans]
    if len(lrus) != len(set(lrus)):
        return "page repeated"
    if len(lrus) != min(k, len(eligible)):
        return "length %d, expected %d" % (len(lrus), min(k, len(eligible)))
    es = set(eligible)
    for x in ans:
        if x["lru"] not in es:
            return "page %r not eligible" % x["lru"]
        if x["indegree"] != deg(x["lru"]):
            return "indegree of %r reported %r, is %r" % (x["lru"], x["indegree"], deg(x["lru"]))
    ds = [x["indegree"] for x in ans]
    if any(ds[i] < ds[i + 1] for i in range(len(ds) - 1)):
        return "not in non-increasing order"
    omitted = [deg(p) for p in eligible if p not in set(lrus)]
    if omitted and ds and max(omitted) > min(ds):
        return "omitted page with larger indegree"
    return None
