# Sensitivity audit (DESIGN.md section 5) - NOT a registered check.
# Applies single-site mutations (and seeded patches) to a scratch copy of the
# repository outside /repo and /verif, runs the repository's own tests there to
# see whether the mutant survives them, then the quick checks with REPO pointing
# at the copy, and records which property caught it.
#
#   /venv/bin/python -m vt.mutation_audit [--only name,...] [--props C01,...] [--out file] [--jobs N]
#   /venv/bin/python -m vt.mutation_audit --patch /verif/seeded/X/patch.diff --props C03,C07
import argparse
import json
import os
import shutil
import subprocess
import sys
import tempfile
import time
from concurrent.futures import ThreadPoolExecutor

from .util import VERIF, REPO

PY = "/venv/bin/python"
ALL = ["C%02d" % i for i in range(1, 21)]

# (name, file, old, new, properties expected to notice)
M = []


def mut(name, file, old, new, expect):
    M.append({"name": name, "file": file, "old": old, "new": new, "expect": expect})


T = "traph/traph.py"
L = "traph/lru_trie/lru_trie.py"
N = "traph/lru_trie/node.py"
K = "traph/link_store/link_store.py"
H = "traph/helpers.py"

mut("refresh-add-prefixes", T, "                node.refresh()  # node update necessary\n", "", ["C04", "C13", "C06"])
mut("EQUIV-refresh-add-page-exists", T, "        if len(longest_candidate_prefix) <= history.webentity_position:\n            node.refresh()  # update node\n", "        if len(longest_candidate_prefix) <= history.webentity_position:\n", ["C01", "C03"])
mut("EQUIV-refresh-add-page-created", T, "            report += self.__create_webentity(longest_candidate_prefix, expand=True)\n            node.refresh()  # update node\n            return node, report\n", "            report += self.__create_webentity(longest_candidate_prefix, expand=True)\n            return node, report\n", ["C01", "C03", "C04"])
mut("EQUIV-refresh-add-page-default", T, "            report += self.__create_webentity(longest_candidate_prefix, expand=True)\n\n        node.refresh()  # update node\n", "            report += self.__create_webentity(longest_candidate_prefix, expand=True)\n\n", ["C01", "C03", "C04"])
mut("refresh-add-links-source", T, "            # Refreshing node's data\n            source_node.refresh()\n", "", ["C03", "C01"])
mut("refresh-add-links-target", T, "            # Refreshing node's data\n            target_node.refresh()\n", "", ["C03", "C01"])
mut("refresh-batch-flag-crawled", T, "                if not source_node.is_crawled():\n                    source_node.refresh()\n", "                if not source_node.is_crawled():\n", ["C16", "C03", "C01"])
mut("refresh-batch-outlinks", T, "            source_node.refresh()\n            store.add_outlinks(source_node, target_blocks)\n", "            store.add_outlinks(source_node, target_blocks)\n", ["C16", "C03"])
mut("refresh-batch-inlinks", T, "            target_node = pages[target_page]\n            target_node.refresh()\n            source_blocks = (pages[source_page].block for source_page in source_pages)\n            store.add_inlinks(target_node, source_blocks)\n\n            if state", "            target_node = pages[target_page]\n            source_blocks = (pages[source_page].block for source_page in source_pages)\n            store.add_inlinks(target_node, source_blocks)\n\n            if state", ["C16", "C03"])
mut("bst-lookup-first-block-only", L, "                if stem < current_stem:\n                    if node.has_left():\n                        node.read_left()\n                    else:\n                        return\n", "                if stem[:74] < current_stem[:74]:\n                    if node.has_left():\n                        node.read_left()\n                    else:\n                        return\n", ["C02"])
mut("crawled-not-turned-on-on-resubmission", L, "        elif crawled and not node.is_crawled():\n            node.flag_as_crawled()\n\n            node.write()\n", "", ["C01"])
mut("report-counts-resubmissions", L, "        elif crawled and not node.is_crawled():\n            node.flag_as_crawled()\n\n            node.write()\n", "        elif crawled and not node.is_crawled():\n            node.flag_as_crawled()\n\n            node.write()\n            history.page_was_created = True\n", ["C01"])
mut("follow-compares-first-block-only", L, "            while True:\n                current_stem = node.stem()\n\n                if current_stem == stem:\n                    break\n\n                if stem < current_stem:\n                    if node.has_left():\n                        node.read_left()\n                    else:\n                        return None, history\n", "            while True:\n                current_stem = node.stem()\n\n                if current_stem[:74] == stem[:74]:\n                    break\n\n                if stem < current_stem:\n                    if node.has_left():\n                        node.read_left()\n                    else:\n                        return None, history\n", ["C04", "C06", "C02"])
mut("sibling-parent-is-sibling", L, "        sibling.set_parent(node.parent())\n", "        sibling.set_parent(node.block)\n", ["C02", "C03", "C08"])
mut("link-previous-dropped-across-batches", K, "        if source_node.has_links(out=out):\n            tail_node = self.node(block=source_node.links(out=out))\n", "        if source_node.has_links(out=out) and out:\n            tail_node = self.node(block=source_node.links(out=out))\n", ["C03"])
mut("inlinks-built-from-wrong-side", T, "            outlinks[source_page].append(target_page)\n            inlinks[target_page].append(source_page)\n", "            outlinks[source_page].append(target_page)\n            inlinks[source_page].append(target_page)\n", ["C03"])
mut("page-links-inbound-includes-self", T, "                if source_lru != lru:\n                    pagelinks.append([source_lru, lru, weight])\n\n        return pagelinks\n", "                pagelinks.append([source_lru, lru, weight])\n\n        return pagelinks\n", ["C03"])
mut("walk-history-keeps-first-webentity", "traph/lru_trie/walk_history.py", "    def update_webentity(self, weid, prefix, position):\n        self.webentity = weid\n", "    def update_webentity(self, weid, prefix, position):\n        if self.webentity is not None:\n            return\n        self.webentity = weid\n", ["C04", "C06"])
mut("attach-refusal-dropped", T, "        if node.has_webentity():\n            raise TraphException(\n                \"Prefix %s already attributed to webentity %s\"\n                % (prefix, node.webentity())\n            )\n        else:\n            node.set_webentity(weid)\n            node.write()\n            return True\n", "        node.set_webentity(weid)\n        node.write()\n        return True\n", ["C04"])
mut("webentity-dfs-ignores-foreign-prefix-depth2", L, "            relevant_node = block == starting_block or not node.has_webentity()\n            current_lru = lru + node.stem()\n\n            if relevant_node:\n                yield node, current_lru\n\n            # Following siblings\n", "            relevant_node = block == starting_block or not node.has_webentity() or level > 2\n            current_lru = lru + node.stem()\n\n            if relevant_node:\n                yield node, current_lru\n\n            # Following siblings\n", ["C05", "C08", "C20"])
mut("ladder-le-to-lt", T, "        # In this case, the webentity already exists\n        if len(longest_candidate_prefix) <= history.webentity_position:\n", "        # In this case, the webentity already exists\n        if len(longest_candidate_prefix) < history.webentity_position:\n", ["C06"])
mut("default-rule-under-existing-webentity", T, "        # In this case, the webentity already exists\n        if len(longest_candidate_prefix) <= history.webentity_position:\n            node.refresh()  # update node\n            return node, report\n", "        # In this case, the webentity already exists\n        if longest_candidate_prefix and len(longest_candidate_prefix) <= history.webentity_position:\n            node.refresh()  # update node\n            return node, report\n", ["C06"])
mut("variations-all-or-nothing", T, "        elif len(invalid_prefixes) == len(prefixes):\n", "        elif len(invalid_prefixes) > 0:\n", ["C06"])
mut("rule-anchors-only-on-new-nodes", L, "            # Tracking webentity creation rules\n            if node.has_webentity_creation_rule():\n                history.add_webentity_creation_rule(len(lru))\n\n            # Flagging for underlying webentities\n", "            # Tracking webentity creation rules\n            if node.has_webentity_creation_rule() and i < l - 1:\n                history.add_webentity_creation_rule(len(lru))\n\n            # Flagging for underlying webentities\n", ["C06"])
mut("network-siblings-inherit-node-webentity", L, "            if node.has_right():\n                stack.append((node.right(), webentity))\n\n            if node.has_left():\n                stack.append((node.left(), webentity))\n\n            if node.has_child():\n                stack.append((node.child(), current_webentity))\n", "            if node.has_right():\n                stack.append((node.right(), current_webentity))\n\n            if node.has_left():\n                stack.append((node.left(), webentity))\n\n            if node.has_child():\n                stack.append((node.child(), current_webentity))\n", ["C07"])
mut("slow-network-cache-source-as-target", T, "                    page_to_webentity[target_block] = target_webentity\n", "                    page_to_webentity[node.block] = target_webentity\n", ["C07"])
mut("auto-links-leak-fast", T, "                if not include_auto and source_webentity == target_webentity:\n                    continue\n\n                # Adding to the graph\n                graph[source_webentity][target_webentity] += weight\n\n                if state.should_yield(5000):\n                    yield state\n\n        yield state.finalize(graph)\n\n    def get_webentities_inlinks_iter", "                if not include_auto and source_webentity == target_webentity and out:\n                    continue\n\n                # Adding to the graph\n                graph[source_webentity][target_webentity] += weight\n\n                if state.should_yield(5000):\n                    yield state\n\n        yield state.finalize(graph)\n\n    def get_webentities_inlinks_iter", ["C07"])
mut("pagelinks-outbound-drops-unresolved-targets", T, "                        if (include_outbound and target_webentity != weid) or (\n                            include_internal and target_webentity == weid\n                        ):\n                            pagelinks.append([lru, target_lru, weight])\n", "                        if (include_outbound and target_webentity and target_webentity != weid) or (\n                            include_internal and target_webentity == weid\n                        ):\n                            pagelinks.append([lru, target_lru, weight])\n", ["C08"])
mut("inorder-resume-ge", L, "                if pagination_path is None or current_lru > pagination_lru:\n", "                if pagination_path is None or current_lru >= pagination_lru:\n", ["C09", "C10"])
mut("inorder-pruning-strict", L, "            return current_path >= p\n", "            return current_path > p or current_path == p[: len(current_path)] and len(current_path) < len(comparison_path)\n", ["C09", "C10"])
mut("token-from-lookahead-page", T, "                n += 1\n\n                if k is not None and n >= k:\n", "                n += 1\n                if n > 1:\n                    last_path = path\n                    last_path_i = i\n\n                if k is not None and n >= k:\n", ["C09"])
mut("page-pagination-path-not-reset", T, "                last_path = path\n                last_path_i = i\n\n            # We reset the pagination path for next prefix\n            pagination_path = None\n\n        return {\"done\": True, \"count\": n, \"count_crawled\": c, \"pages\": pages}\n", "                last_path = path\n                last_path_i = i\n\n        return {\"done\": True, \"count\": n, \"count_crawled\": c, \"pages\": pages}\n", ["C09"])
mut("header-write-dropped", T, "        header.increment_last_webentity_id()\n        header.write()\n", "        header.increment_last_webentity_id()\n", ["C12", "C11"])
mut("child-flag-only-on-new-nodes", L, "            if (\n                i < l - 1\n                and flag_can_have_child_webentities\n                and not node.can_have_child_webentities()\n            ):\n                node.flag_can_have_child_webentities()\n                node.write()\n", "", ["C13"])
mut("add-prefix-does-not-flag-ancestors", T, "        # check prefix\n        node, history = self.lru_trie.add_lru(\n            prefix, flag_can_have_child_webentities=True\n        )\n        if node.has_webentity():\n            raise TraphException(\n                \"Prefix %s already attributed", "        # check prefix\n        node, history = self.lru_trie.add_lru(prefix)\n        if node.has_webentity():\n            raise TraphException(\n                \"Prefix %s already attributed", ["C13"])
mut("query-uses-add-lru", T, "        prefix = self.__encode(prefix)\n\n        node = self.lru_trie.lru_node(prefix)\n        if not node:\n            raise TraphException(\"LRU %s not in the traph\" % (prefix))\n        if not node.has_webentity():\n            raise TraphException(\"LRU %s is not a webentity prefix\" % (prefix))\n", "        prefix = self.__encode(prefix)\n\n        node, _ = self.lru_trie.add_lru(prefix)\n        if not node.has_webentity():\n            raise TraphException(\"LRU %s is not a webentity prefix\" % (prefix))\n", ["C14", "C02", "C19"])
mut("potential-prefix-writes-back", T, "        lru = self.__encode(lru)\n        node, history = self.lru_trie.follow_lru(lru)\n\n        # Retrieving the longest candidate prefix\n", "        lru = self.__encode(lru)\n        node, history = self.lru_trie.follow_lru(lru)\n        if node and node.is_page() and not node.is_crawled():\n            node.write()\n\n        # Retrieving the longest candidate prefix\n", ["C14"])
mut("EQUIV-C18-child-linked-before-written", L, "            child.write()\n\n            # Linking the child to its parent\n            node.set_child(child.block)\n            node.write()\n", "            # Linking the child to its parent\n            node.set_child(int(self.storage.count_blocks()) * self.storage.block_size)\n            node.write()\n\n            child.write()\n", ["C18"])
mut("head-before-stubs", K, "            link_node.write()\n\n            tail_node = link_node\n", "            link_node.write()\n\n            tail_node = link_node\n            source_node.set_links(tail_node.block + self.storage.block_size, out=out)\n            source_node.write()\n", ["C18"])
mut("most-linked-depth-off-by-one", L, "                if max_depth is not None and level >= max_depth:\n", "                if max_depth is not None and level > max_depth:\n", ["C20"])
mut("most-linked-heap-keeps-smallest", T, "                    heapq.heappush(pages, (indegree, c, lru))\n\n                    if len(pages) > pages_count:\n                        heapq.heappop(pages)\n", "                    heapq.heappush(pages, (indegree, c, lru))\n\n                    if len(pages) > pages_count:\n                        pages.remove(max(pages))\n                        heapq.heapify(pages)\n", ["C20"])
mut("clear-keeps-link-storage-handle", T, "            self.lru_trie_storage.file = self.lru_trie_file\n            self.links_store_storage.file = self.link_store_file\n", "            self.lru_trie_storage.file = self.lru_trie_file\n", ["C11"])
mut("www-toggled-with-single-host", H, "    if len(hosts) <= 1:\n        return variations\n    if hosts[-1] == b\"h:www\":\n        hosts.pop(-1)\n    else:\n        hosts.append(b\"h:www\")\n    if len(hosts) == 1:\n        return variations\n", "    if len(hosts) <= 1:\n        return variations\n    if hosts[-1] == b\"h:www\":\n        hosts.pop(-1)\n    else:\n        hosts.append(b\"h:www\")\n", ["C17", "C06"])
mut("memory-write-in-place-extends", "traph/storage/memory.py", "            self.array[block : block + self.block_size] = data\n", "            self.array[block : block + len(data) - 1] = data\n", ["C15"])
mut("tail-chunk-size-off-by-one", N, "            for is_last, chunk in detailed_chunks_iter(LRU_TRIE_STEM_SIZE, self.tail):\n", "            for is_last, chunk in detailed_chunks_iter(LRU_TRIE_STEM_SIZE - 1, self.tail):\n", ["C19"])
mut("metrics-counts-fragmented-as-tail", L, "            if node.is_tail():\n                stats[\"nb_tail_nodes\"] += 1\n", "            if node.is_tail() or node.has_tail():\n                stats[\"nb_tail_nodes\"] += 1\n", ["C19"])
mut("rule-reevaluation-skips-anchor-page", T, "            for node2, lru in self.lru_trie.dfs_iter(node, rule_prefix):\n                if node2.is_page():\n", "            for node2, lru in self.lru_trie.dfs_iter(node, rule_prefix):\n                if node2.is_page() and node2.block != node.block:\n", ["C06"])
mut("cited-cache-by-webentity", T, "                        target_node.read(target)\n                        if target_node.block not in done_blocks:\n                            target_webentity = self.lru_trie.windup_lru_for_webentity(\n                                target_node\n                            )\n                            done_blocks.add(target_node.block)\n                            weids.add(target_webentity)\n", "                        target_node.read(target)\n                        if target_node.block not in done_blocks and target_node.parent() not in done_blocks:\n                            target_webentity = self.lru_trie.windup_lru_for_webentity(\n                                target_node\n                            )\n                            done_blocks.add(target_node.block)\n                            weids.add(target_webentity)\n", ["C08"])


def make_copy(dst):
    shutil.copytree(REPO, dst, ignore=shutil.ignore_patterns(".git", "__pycache__", "*.pyc", ".benchmarks", "*.egg-info"))


def run_tests(copy):
    p = subprocess.run([PY, "-m", "pytest", "-q", "-x", "-p", "no:cacheprovider"], cwd=copy, capture_output=True, text=True,
                       env=dict(os.environ, PYTHONDONTWRITEBYTECODE="1"), timeout=600)
    return p.returncode == 0, p.stdout[-300:]


def run_check(copy, prop, tier, tmp, shards):
    env = dict(os.environ, REPO=copy, VERIF_EVIDENCE_DIR=os.path.join(tmp, "ev"), VERIF_REPLAY_DIR=os.path.join(tmp, "rp"),
               PYTHONDONTWRITEBYTECODE="1", PYTHONHASHSEED="0")
    t0 = time.time()
    p = subprocess.run([PY, "-m", "vt.runner", prop, "--tier", tier, "--shards", str(shards)], cwd=VERIF, env=env, capture_output=True, text=True, timeout=3000)
    first = ""
    for line in p.stdout.splitlines():
        if "witness" in line:
            first = line.strip()[:400]
            break
    return {"rc": p.returncode, "s": round(time.time() - t0, 1), "witness": first}


def evaluate(name, apply_fn, props, tier, shards, expect=()):
    tmp = tempfile.mkdtemp(prefix="vt-mut-")
    copy = os.path.join(tmp, "repo")
    res = {"name": name, "expect": list(expect)}
    try:
        make_copy(copy)
        apply_fn(copy)
        ok, tail = run_tests(copy)
        res["survives_repo_tests"] = ok
        if not ok:
            res["tests_tail"] = tail
        res["checks"] = {}
        for prop in props:
            res["checks"][prop] = run_check(copy, prop, tier, tmp, shards)
        res["caught_by"] = [p for p, r in res["checks"].items() if r["rc"] == 1]
        res["inconclusive"] = [p for p, r in res["checks"].items() if r["rc"] == 2]
    except Exception as e:
        res["error"] = repr(e)
    finally:
        shutil.rmtree(tmp, ignore_errors=True)
    return res


def apply_mut(m):
    def f(copy):
        p = os.path.join(copy, m["file"])
        s = open(p).read()
        if s.count(m["old"]) != 1:
            raise RuntimeError("mutation %s: pattern occurs %d times" % (m["name"], s.count(m["old"])))
        open(p, "w").write(s.replace(m["old"], m["new"]))
    return f


def apply_patch(path):
    def f(copy):
        subprocess.run(["git", "init", "-q"], cwd=copy, check=False)
        r = subprocess.run(["git", "apply", "--whitespace=nowarn", path], cwd=copy, capture_output=True, text=True)
        if r.returncode:
            r = subprocess.run(["patch", "-p1", "-i", path], cwd=copy, capture_output=True, text=True)
            if r.returncode:
                raise RuntimeError("patch does not apply: " + r.stdout + r.stderr)
        shutil.rmtree(os.path.join(copy, ".git"), ignore_errors=True)
    return f


def main():
    ap = argparse.ArgumentParser()
    ap.add_argument("--only")
    ap.add_argument("--props")
    ap.add_argument("--patch")
    ap.add_argument("--tier", default="quick")
    ap.add_argument("--out", default=os.path.join(VERIF, "mutation_results.json"))
    ap.add_argument("--jobs", type=int, default=4)
    ap.add_argument("--shards", type=int, default=4)
    ap.add_argument("--all-props", action="store_true")
    ap.add_argument("--reverts", choices=["only", "also"])
    a = ap.parse_args()
    if a.patch:
        props = a.props.split(",") if a.props else ALL
        r = evaluate(os.path.basename(os.path.dirname(a.patch)) or a.patch, apply_patch(os.path.abspath(a.patch)), props, a.tier, a.shards)
        print(json.dumps(r, indent=1))
        return 0
    muts = [m for m in M if not a.only or m["name"] in a.only.split(",")]
    if a.reverts:
        # every "fix:" commit of /repo, reverted, is a mutant too
        log = subprocess.run(["git", "-C", REPO, "log", "--format=%h %s"], capture_output=True, text=True).stdout.splitlines()
        rdir = tempfile.mkdtemp(prefix="vt-reverts-")
        muts = [] if a.reverts == "only" else muts
        for line in log:
            h, subj = line.split(" ", 1)
            if not subj.startswith("fix:"):
                continue
            pf = os.path.join(rdir, h + ".diff")
            with open(pf, "w") as f:
                f.write(subprocess.run(["git", "-C", REPO, "diff", h, h + "^"], capture_output=True, text=True).stdout)
            expect = {"fd93a06": ["C01"], "90cb8c1": ["C15", "C01"], "da5ab36": ["C19", "C02"], "3e1d585": ["C15", "C06", "C02"],
                      "896c58c": ["C17", "C06"], "c8c1d74": ["C10"], "b343f1a": ["C17"], "c3fea33": ["C18"], "a74cced": ["C09", "C10"]}.get(h, [])
            muts.append({"name": "revert-" + h + " " + subj[:60], "patch": pf, "expect": expect})
    results = []

    def job(m):
        props = a.props.split(",") if a.props else (ALL if a.all_props else sorted(set(m["expect"]) | {"C01", "C02", "C03", "C04"}))
        r = evaluate(m["name"], apply_patch(m["patch"]) if "patch" in m else apply_mut(m), props, a.tier, a.shards, m["expect"])
        print("%-45s tests:%s caught_by=%s inconclusive=%s %s" % (m["name"], "survives" if r.get("survives_repo_tests") else "KILLED",
                                                                  r.get("caught_by"), r.get("inconclusive"), r.get("error", "")), flush=True)
        return r

    with ThreadPoolExecutor(a.jobs) as ex:
        results = list(ex.map(job, muts))
    with open(a.out, "w") as f:
        json.dump({"tier": a.tier, "results": results}, f, indent=1)
    missed = [r["name"] for r in results if r.get("survives_repo_tests") and not r.get("caught_by")]
    print("mutants: %d, survive repo tests: %d, of those missed by the checks: %s" % (
        len(results), sum(1 for r in results if r.get("survives_repo_tests")), missed))
    return 0


if __name__ == "__main__":
    sys.exit(main())
