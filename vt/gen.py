# Workload generators (DESIGN.md 2.2): LRU grammar classes, configurations and
# operation histories.  Everything is derived from a random.Random handed in by
# the caller, so a case is reproducible from (VERIF_SEED, property, shard, index).
import random
import re

from .model import Model
from .util import stems, prefixes_of, wellformed

# Hyphe's rule family (the harness' own copy of the six regexes Hyphe ships).
_H = rb"(s:[a-zA-Z]+\|(t:[0-9]+\|)?(h:[^\|]+\|(h:[^\|]+\|)%s|h:(localhost|(\d{1,3}\.){3}\d{1,3}|\[[\da-f]*:[\da-f:]*\])\|)%s)"
RX = {
    "domain": _H % (b"", b""),
    "subdomain": _H % (b"+", b""),
    "path1": _H % (b"+", rb"(p:[^\|]+\|){1}"),
    "path2": _H % (b"+", rb"(p:[^\|]+\|){2}"),
    "path3": _H % (b"+", rb"(p:[^\|]+\|){3}"),
    "path4": _H % (b"+", rb"(p:[^\|]+\|){4}"),
}
_RXC = {k: re.compile(v, re.I) for k, v in RX.items()}
ANCHOR_RULES = ["path1", "path2", "path3", "subdomain", "path4"]

LONG_LENGTHS = [73, 74, 75, 76, 147, 148, 149, 150, 221, 222, 223, 296, 297, 1000]
HUGE_LENGTHS = [1023, 1024, 1025, 1500, 2047, 2048, 2049, 2083, 2500, 3000, 4095, 4096, 4097, 6000, 8192, 8193]


def rules_ok(lru):
    """Precondition of C06: every rule of the family matches from offset 0 and
    ends on a stem boundary (or does not match)."""
    for rx in _RXC.values():
        m = rx.search(lru)
        if m and (m.start() != 0 or not m.group().endswith(b"|")):
            return False
    return True


# --------------------------------------------------------------------------
# LRU classes
# --------------------------------------------------------------------------
SCHEMES = [b"s:http|", b"s:https|", b"s:http|", b"s:https|", b"s:ftp|"]
PORTS = [b"", b"", b"", b"t:80|", b"t:8080|"]
TLD = [b"h:com|", b"h:org|", b"h:fr|"]
HOSTS = [b"h:a|", b"h:b|", b"h:c|", b"h:www|", b"h:a|", b"h:www|"]
SPECIAL_HOSTS = [b"h:localhost|", b"h:10.0.0.1|", b"h:LOCALHOST|", b"h:[2001:DB8::1]|"]
PATHS = [b"p:x|", b"p:y|", b"p:z|", b"p:w|", b"p:{|", b"p:~|", b"p:\x00|", b"p:\xff|", b"q:a=1|", b"f:top|", b"p:s:http|", b"p:h:www|"]


def g_real(rng, long_ok=False, deep=False):
    sch = rng.choice(SCHEMES)
    port = rng.choice(PORTS)
    r = rng.random()
    if r < 0.06:
        hosts = [rng.choice(SPECIAL_HOSTS)]
    elif r < 0.09:
        hosts = []
    else:
        hosts = [rng.choice(TLD)]
        for _ in range(rng.choice([0, 1, 1, 1, 2, 2, 3])):
            hosts.append(rng.choice(HOSTS))
        while len(hosts) >= 2 and hosts[-1] == b"h:www|" and hosts[-2] == b"h:www|":
            hosts.pop()
    path = []
    for _ in range(rng.choice([0, 1, 1, 2, 2, 3, 4] if not deep else [2, 3, 4, 5])):
        if long_ok and rng.random() < 0.18:
            path.append(g_long_stem(rng))
        else:
            path.append(rng.choice(PATHS))
    return sch + port + b"".join(hosts) + b"".join(path)


def g_long_stem(rng, families=(b"a", b"b")):
    """Path stem of total length n (separator included).  Stems of one family
    share everything but their last byte, so comparisons must reach the tail."""
    n = rng.choice(LONG_LENGTHS)
    if n == 1000 and rng.random() < 0.7:
        n = rng.choice(LONG_LENGTHS[:-1])
    elif rng.random() < 0.05:
        n = rng.choice(HUGE_LENGTHS)  # kilobytes: a query string, a data: URL
    fam = rng.choice(families)
    return b"p:" + fam * (n - 4) + bytes([rng.choice(b"ABC")]) + b"|"


def g_bin_stem(rng):
    r = rng.random()
    if r < 0.1:
        return b"|"
    n = rng.choice([1, 1, 2, 3, 5])
    alphabet = [0x00, 0x01, 0x7B, 0x7D, 0x7E, 0xFF, 0x41, 0x61, 0x0A, 0x20]
    return bytes(rng.choice(alphabet) for _ in range(n)) + b"|"


def g_bin(rng, long_ok=False):
    if rng.random() < 0.5:
        # Hyphe-shaped head, binary path
        head = rng.choice(SCHEMES[:2]) + rng.choice(TLD) + rng.choice(HOSTS[:3])
        return head + b"".join(b"p:" + g_bin_stem(rng) for _ in range(rng.randint(1, 3)))
    out = b"".join(g_bin_stem(rng) for _ in range(rng.randint(1, 4)))
    if long_ok and rng.random() < 0.2:
        out += bytes([rng.choice([0, 255, 0x7B])]) * rng.choice(LONG_LENGTHS[:9]) + b"|"
    return out


TEXT_STEMS = ["p:caf\u00e9|", "p:\u00fcber|", "p:na\u00efve|", "p:x|", "q:\u00e9=\u00e8|",
              # decomposed (e + combining acute), a compatibility ligature, a percent escape, upper case, a non-BMP character:
              # text must reach the index encoded as it is, never normalised
              "p:cafe\u0301|", "p:\ufb01n|", "p:caf%C3%A9|", "p:CAF\u00c9|", "p:\U0001f600|", "p:\u212b|"]


def g_text(rng, encoding):
    head = rng.choice(["s:http|", "s:https|"]) + rng.choice(["h:com|", "h:fr|"]) + rng.choice(["h:a|", "h:b|"])
    stems_ok = []
    for x in TEXT_STEMS:
        try:
            x.encode(encoding)
            stems_ok.append(x)
        except UnicodeEncodeError:
            pass
    t = head + "".join(rng.choice(stems_ok) for _ in range(rng.randint(1, 2)))
    return t.encode(encoding)


def make_pool(rng, n=24, classes=("real",), encoding="utf-8", long_ok=False):
    pool = []
    text = set()
    guard = 0
    while len(pool) < n and guard < n * 50:
        guard += 1
        c = rng.choice(classes)
        if pool and c != "text" and rng.random() < 0.3:
            # relatives of an LRU already in the pool: its parent, a child, or (multi-block
            # stems) a sibling of the same family, so that pages sit on, above and below
            # prefixes and long stems that share their first block(s) become siblings
            base = rng.choice(pool)
            st = stems(base)
            r = rng.random()
            if r < 0.4 and len(st) > 2:
                lru = b"".join(st[:-1])
            elif r < 0.7 or not long_ok:
                lru = base + rng.choice(PATHS)
            else:
                fam = (rng.choice((b"a", b"b")),)
                par = b"".join(st[:-1]) if len(st[-1]) > 74 else base
                lru = par + g_long_stem(rng, families=fam)
            if wellformed(lru) and rules_ok(lru) and lru not in pool:
                pool.append(lru)
            continue
        if c == "real":
            lru = g_real(rng, long_ok=long_ok)
        elif c == "deep":
            lru = g_real(rng, long_ok=long_ok, deep=True)
        elif c == "bin":
            lru = g_bin(rng, long_ok=long_ok)
        elif c == "long":
            lru = g_real(rng, long_ok=True)
        elif c == "text":
            lru = g_text(rng, encoding)
            text.add(lru)
        else:
            raise ValueError(c)
        if not wellformed(lru) or not rules_ok(lru):
            continue
        pool.append(lru)
    return pool, text


def some_prefix(rng, lru, lo=1, hi=5):
    ps = prefixes_of(lru)
    k = min(len(ps), rng.randint(lo, hi))
    return ps[k - 1]


def neighbours(rng, lru):
    """Absent-looking probes derived from a stored LRU (C02/C04/C14)."""
    out = []
    st = stems(lru)
    if st:
        s = st[-1]
        if len(s) > 1:
            b = s[-2]
            for nb in ((b + 1) % 256, (b - 1) % 256):
                if nb != 0x7C:
                    out.append(b"".join(st[:-1]) + s[:-2] + bytes([nb]) + b"|")
            out.append(b"".join(st[:-1]) + s[:-2] + b"|")  # shortened stem
        out.append(lru + b"p:zz|")  # below a leaf
        out.append(lru + s)
        if len(st) > 1:
            out.append(b"".join(st[:-2] + st[-1:]))  # dropped stem
            k = rng.randrange(len(st))
            out.append(b"".join(st[:k]) + b"h:nope|" + b"".join(st[k + 1 :]))
    return [x for x in out if wellformed(x)]


# --------------------------------------------------------------------------
# configurations
# --------------------------------------------------------------------------
def make_cfg(rng, pool, backends=("file", "memory"), max_rules=3, encodings=("utf-8",), rule_prob=0.6):
    cfg = {
        "backend": rng.choice(backends),
        "default": rng.choice(["domain", "domain", "subdomain"]),
        "encoding": rng.choice(encodings),
        "overwrite": rng.random() < 0.3,
        "rules": [],
    }
    if rng.random() < rule_prob:
        seen = set()
        for _ in range(rng.randint(1, max_rules)):
            a = some_prefix(rng, rng.choice(pool), 2, 4)
            if a in seen or not a.startswith(b"s:"):
                continue
            seen.add(a)
            cfg["rules"].append([a, rng.choice(ANCHOR_RULES[:4])])
    return cfg


# --------------------------------------------------------------------------
# histories
# --------------------------------------------------------------------------
DEFAULT_WEIGHTS = {
    "add_page": 6, "add_pages": 2, "add_links": 4, "batch": 3,
    "create": 3, "delete": 1, "addp": 2, "rmp": 1, "mvp": 1,
    "rule": 1, "rmrule": 1, "reopen": 1, "clear": 0.6,
    "bad_delete": 0.5, "bad_rmp": 0.4, "bad_mvp": 0.3, "overwrite_open": 0.3,
    "bystander": 0.3, "addp_foreign": 0.3, "touch": 1.5,
}


def gen_history(rng, cfg, pool, text, nops, weights=None, allow_uncrawled_pages=True):
    """Concrete operation list.  A private model is advanced alongside so that
    preconditions hold; webentities are referred to by one of their prefixes
    ('of'), resolved by the executor at run time."""
    w = dict(DEFAULT_WEIGHTS)
    if weights:
        w.update(weights)
    kinds = [k for k, v in w.items() if v > 0]
    wts = [w[k] for k in kinds]
    m = Model(RX[cfg["default"]], {a: RX[r] for a, r in cfg["rules"]})
    ops = []

    def pick():
        return rng.choice(pool)

    def astr(lrus):
        return bool(text) and all(l in text for l in lrus) and rng.random() < 0.7

    guard = 0
    just_ruled = None
    came_off = None  # a prefix that has just lost its webentity: a page at or below it comes back next, now and then
    while len(ops) < nops and guard < nops * 20:
        guard += 1
        k = rng.choices(kinds, wts)[0]
        if just_ruled is not None:
            a_, just_ruled = just_ruled, None
            if a_ in m.flags and w.get("rmrule", 0) > 0 and rng.random() < 0.3:
                # a rule taken off again right after it was installed (the marks the installation left must all go, and only they)
                ops.append({"op": "rmrule", "anchor": a_})
                m.remove_rule(a_)
                continue
        if came_off is not None:
            pre, came_off = came_off, None
            if rng.random() < 0.45 and w.get("add_page", 0) > 0:
                known = sorted(p_ for p_ in m.pages if p_.startswith(pre))
                if known and rng.random() < 0.6:
                    l = rng.choice(known)  # a known page submitted again (often as crawled) right after the detachment
                else:
                    l = pre + rng.choice(PATHS)
                if wellformed(l) and rules_ok(l):
                    c = rng.random() < 0.6
                    ops.append({"op": "add_page", "lru": l, "crawled": c, "as_str": astr([l])})
                    m.add_page(l, c)
                    m.take_groups()
                    continue
        if k == "add_page":
            l = pick()
            c = rng.random() < 0.35
            ops.append({"op": "add_page", "lru": l, "crawled": c, "as_str": astr([l])})
            m.add_page(l, c)
        elif k == "add_pages":
            r = rng.random()
            if r < 0.12:
                # G-order: a whole slice of the pool in ascending / descending / middle-out order
                # (degenerate sibling chains and their mirror images)
                sl = sorted(set(pool))
                sl = sl[: rng.randint(3, len(sl))]
                mode = rng.choice(["asc", "desc", "mid"])
                if mode == "desc":
                    sl.reverse()
                elif mode == "mid":
                    mid = len(sl) // 2
                    sl = [x for pair in zip(sl[mid:], reversed(sl[:mid])) for x in pair] + ([sl[-1]] if len(sl) % 2 else [])
                ls = sl
            else:
                ls = [pick() for _ in range(rng.randint(1, 4))]
            c = rng.random() < 0.6 if allow_uncrawled_pages else True
            ops.append({"op": "add_pages", "lrus": ls, "crawled": c, "as_str": astr(ls)})
            for l in ls:
                m.add_page(l, c)
        elif k == "add_links":
            n = rng.choice([1, 2, 3, 4, 6, 9])
            ls = []
            for _ in range(n):
                r = rng.random()
                if r < 0.12:
                    s = pick()
                    ls.append([s, s])
                elif r < 0.3 and ls:
                    ls.append(list(rng.choice(ls)))
                else:
                    ls.append([pick(), pick()])
            ops.append({"op": "add_links", "links": ls, "as_str": astr([x for p in ls for x in p])})
            m.add_links(ls)
        elif k == "batch" and rng.random() < 0.12 and any(m.pages.values()):
            # re-crawl pattern: a page P crawled earlier is met as a target, something new hooks right below
            # it, and P comes back as a source that links to known pages only
            P = rng.choice(sorted(p_ for p_, c in m.pages.items() if c))
            S = pick()
            below = [P + rng.choice(PATHS) for _ in range(rng.randint(1, 2))]
            below = [x for x in below if rules_ok(x)]
            data = [[S, [P] + below], [P, [S] if rng.random() < 0.7 else [S, P]]]
            if S == P:
                continue
            ops.append({"op": "batch", "data": data, "yf": rng.choice([1, 2, 50]), "as_str": False})
            m.batch(data)
        elif k == "batch":
            data = []
            srcs = set()
            seen_targets = []
            for _ in range(rng.choice([1, 2, 3, 3, 5])):
                # a page met as a target earlier in this batch comes back as a source
                returning = bool(seen_targets) and rng.random() < 0.4
                s = rng.choice(seen_targets) if returning else pick()
                if s in srcs:
                    continue
                srcs.add(s)
                ts = []
                known_only = returning and rng.random() < 0.6  # a returning page that links to known pages only
                for _ in range(rng.choice([0, 1, 2, 3, 5])):
                    r = rng.random()
                    if known_only:
                        ts.append(rng.choice(sorted(srcs) + seen_targets))
                    elif r < 0.1:
                        ts.append(s)
                    elif r < 0.25 and ts:
                        ts.append(rng.choice(ts))
                    elif r < 0.4 and srcs:
                        ts.append(rng.choice(sorted(srcs)))
                    elif r < 0.6 and seen_targets:
                        ts.append(rng.choice(seen_targets) + rng.choice(PATHS))  # hooks right below an earlier target
                    elif r < 0.7 and seen_targets:
                        ts.append(rng.choice(seen_targets))
                    else:
                        ts.append(pick())
                ts = [x for x in ts if rules_ok(x)]
                seen_targets += ts
                data.append([s, ts])
            as_text = astr([x for s_, ts in data for x in [s_] + ts])
            if not as_text and data and rng.random() < 0.25:
                # one source of the batch given as text, the others as bytes (never the same page under two keys:
                # what a batch naming one source twice means is not specified)
                e_ = rng.choice(data)
                try:
                    enc = cfg.get("encoding", "utf-8")
                    if e_[0].decode(enc).encode(enc) == e_[0] and len(e_) == 2:
                        e_.append(True)
                except Exception:
                    pass
            ops.append({"op": "batch", "data": data, "yf": rng.choice([1, 2, 50]), "as_str": as_text})
            m.batch([[e[0], e[1]] for e in data])
        elif k == "create":
            ps = []
            for _ in range(rng.choice([1, 1, 2, 3])):
                p = some_prefix(rng, pick(), 1, 5)
                if p not in ps:
                    ps.append(p)
            ops.append({"op": "create", "prefixes": ps})
            m.create_webentity(ps)
            m.take_groups()
        elif k == "delete" and m.we:
            of = rng.choice(sorted(m.we))
            gid = m.we[of]
            ps = sorted(p for p, g in m.we.items() if g == gid)
            if len(ps) > 1 and rng.random() < 0.3:
                ps = rng.sample(ps, rng.randint(1, len(ps) - 1))
                if of not in ps:
                    ps.append(of)
            rng.shuffle(ps)
            ops.append({"op": "delete", "of": of, "prefixes": ps, "unchecked": rng.random() < 0.2})
            for p in ps:
                del m.we[p]
            came_off = rng.choice(ps)
        elif k == "addp" and m.we:
            of = rng.choice(sorted(m.we))
            p = some_prefix(rng, pick(), 1, 5)
            ops.append({"op": "addp", "prefix": p, "of": of})
            m.ins(p)
            if p not in m.we:
                m.we[p] = m.we[of]
        elif k == "rmp" and m.we:
            p = rng.choice(sorted(m.we))
            ops.append({"op": "rmp", "prefix": p, "with_id": rng.random() < 0.7})
            del m.we[p]
            came_off = p
        elif k == "mvp" and len(m.we) > 0:
            p = rng.choice(sorted(m.we))
            of = rng.choice(sorted(m.we))
            r1, r2 = rng.random(), rng.random()
            op = {"op": "mvp", "prefix": p, "of": of, "with_src": r1 < 0.7, "alias": r2 < 0.3}
            if r1 >= 0.8:
                # a move without source of a prefix that belongs to no webentity (often not even stored yet): it then acts
                # as an attachment. Drawn from a side generator so that the main stream of the workload is unchanged.
                side = random.Random(int(r1 * 2 ** 53))
                q = some_prefix(side, side.choice(pool), 1, 6)
                if q not in m.we:
                    op["prefix"], op["fresh"] = q, True
                    m.ins(q)
            ops.append(op)
            m.we[op["prefix"]] = m.we[of]
        elif k == "rule":
            r0 = rng.random()
            short_pages = sorted(p_ for p_ in m.pages if 2 <= len(stems(p_)) <= 5)
            if m.rules and r0 < 0.25:
                # an anchor that already has (or had) a rule: its regexp is replaced (usually by another one)
                a = rng.choice(sorted(m.rules))
            elif short_pages and r0 < 0.45:
                # an anchor that is itself a page (a site's home page): marks of the two roles share one node
                a = rng.choice(short_pages)
            else:
                a = some_prefix(rng, pick(), 2, 4)
            if not a.startswith(b"s:"):
                continue
            r = rng.choice(ANCHOR_RULES)
            ops.append({"op": "rule", "anchor": a, "rule": r})
            m.add_rule(a, RX[r])
            m.take_groups()
            just_ruled = a
        elif k == "rmrule" and m.flags:
            a = rng.choice(sorted(m.flags))
            ops.append({"op": "rmrule", "anchor": a})
            m.remove_rule(a)
        elif k == "bad_delete" and len(set(m.we.values())) >= 1:
            # a deletion that must be refused: one listed prefix belongs to another webentity or to none
            of = rng.choice(sorted(m.we))
            gid = m.we[of]
            ps = sorted(p for p, g in m.we.items() if g == gid)
            others = sorted(p for p, g in m.we.items() if g != gid) + [some_prefix(rng, pick(), 1, 5)]
            bad = rng.choice(others)
            if bad in ps:
                continue
            ps.insert(rng.randint(0, len(ps)), bad)
            ops.append({"op": "bad_delete", "of": of, "prefixes": ps})
        elif k in ("bad_rmp", "bad_mvp") and m.we:
            if rng.random() < 0.5 and len(set(m.we.values())) >= 2:
                # a prefix attached to another webentity than the one named
                p = rng.choice(sorted(m.we))
                other = rng.choice(sorted(q for q in m.we if m.we[q] != m.we[p]))
            else:
                # a prefix that carries no webentity itself, named with the webentity of a prefix above it
                other = rng.choice(sorted(m.we))
                p = other + rng.choice(PATHS)
                if rng.random() < 0.5:
                    below = sorted(n_ for n_ in m.nodes if n_.startswith(other) and n_ != other and n_ not in m.we)
                    if below:
                        p = rng.choice(below)
                if p in m.we or not rules_ok(p):
                    continue
                m.ins(p)
            ops.append({"op": k, "prefix": p, "of": other})
        elif k == "touch" and m.nodes:
            # read-only requests naming one stored LRU, between two writes (whatever a lookup leaves behind
            # must not be reused after the next write)
            cand = sorted(m.we) if (m.we and rng.random() < 0.6) else sorted(m.nodes)
            ops.append({"op": "touch", "lru": rng.choice(cand), "how": rng.randrange(4)})
        elif k == "bystander":
            # another index comes to life in the same process and stays open (it must not interfere)
            ops.append({"op": "bystander", "pages": [pick() for _ in range(rng.randint(0, 3))], "memory": rng.random() < 0.6})
        elif k == "addp_foreign":
            # a prefix attached to an id chosen by the caller, larger than any id the index generated
            p = some_prefix(rng, pick(), 1, 5)
            if p in m.we:
                continue
            fid = 100000 + rng.randrange(50)  # caller-chosen ids, beyond two bytes
            ops.append({"op": "addp_foreign", "prefix": p, "id": fid})
            m.ins(p)
            m.we[p] = -fid  # model id of a caller-chosen webentity id
        elif k == "overwrite_open" and cfg["backend"] == "file":
            # the folder opened again with overwrite=True: a new, empty index with the given rules
            newrules = []
            seen = set()
            for _ in range(rng.randint(0, 2)):
                a = some_prefix(rng, pick(), 2, 4)
                if a.startswith(b"s:") and a not in seen:
                    seen.add(a)
                    newrules.append([a, rng.choice(ANCHOR_RULES[:4])])
            newdef = rng.choice(["domain", "subdomain"])
            ops.append({"op": "overwrite_open", "default": newdef, "rules": newrules})
            m.clear(RX[newdef], {a: RX[x] for a, x in newrules})
        elif k == "reopen" and cfg["backend"] == "file":
            ops.append({"op": "reopen"})
        elif k == "clear":
            r = rng.random()
            newrules = None
            newdef = None
            if r < 0.7:
                newrules = []
                seen = set()
                for _ in range(rng.randint(0, 2)):
                    a = some_prefix(rng, pick(), 2, 4)
                    if a.startswith(b"s:") and a not in seen:
                        seen.add(a)
                        newrules.append([a, rng.choice(ANCHOR_RULES[:4])])
                newdef = rng.choice(["domain", "subdomain"])
            ops.append({"op": "clear", "default": newdef, "rules": newrules})
            m.clear(RX[newdef] if newdef else None, {a: RX[x] for a, x in newrules} if newrules is not None else None)
        m.take_groups()
    return ops
