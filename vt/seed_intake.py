# Intake of a seeded change produced by an independent sub-agent:
#   /venv/bin/python -m vt.seed_intake <seed-id> <dir with patch.diff demo.py notes.md> <property> [--props C01,C02] [--tier quick]
# 1. confirms on scratch copies of /repo (outside /repo and /verif): the patch
#    applies, the repository's tests pass with it, the demo passes without it
#    and fails with it;
# 2. runs the given checks with REPO pointing at the patched copy;
# 3. stores patch.diff, the demo, notes and meta.json under /verif/seeded/<seed-id>/.
import argparse
import json
import os
import shutil
import subprocess
import sys
import tempfile
import time

from .mutation_audit import make_copy, run_tests, run_check, apply_patch, ALL, PY
from .util import VERIF


def run_demo(copy, demo):
    dst = os.path.join(copy, "_seed")
    os.makedirs(dst, exist_ok=True)
    shutil.copy(demo, os.path.join(dst, "demo.py"))
    try:
        p = subprocess.run([PY, "_seed/demo.py"], cwd=copy, capture_output=True, text=True, timeout=600,
                           env=dict(os.environ, PYTHONDONTWRITEBYTECODE="1", REPO=copy))
        return p.returncode, (p.stdout + p.stderr)[-500:]
    except subprocess.TimeoutExpired:
        return 124, "timeout"


def main():
    ap = argparse.ArgumentParser()
    ap.add_argument("seed_id")
    ap.add_argument("src")
    ap.add_argument("property")
    ap.add_argument("--props")
    ap.add_argument("--tier", default="quick")
    ap.add_argument("--shards", type=int, default=8)
    ap.add_argument("--needs", default="")
    a = ap.parse_args()
    patch = os.path.abspath(os.path.join(a.src, "patch.diff"))
    demo = os.path.abspath(os.path.join(a.src, "demo.py"))
    props = a.props.split(",") if a.props else [a.property]
    tmp = tempfile.mkdtemp(prefix="vt-seed-")
    meta = {"seed_id": a.seed_id, "breaks_property": a.property, "tier": a.tier, "at": time.strftime("%Y-%m-%d %H:%M:%S")}
    try:
        clean = os.path.join(tmp, "clean")
        pat = os.path.join(tmp, "patched")
        make_copy(clean)
        make_copy(pat)
        apply_patch(patch)(pat)
        ok, tail = run_tests(pat)
        meta["repo_tests_pass_with_change"] = ok
        rc0, out0 = run_demo(clean, demo)
        rc1, out1 = run_demo(pat, demo)
        meta["demo_without_change"] = {"rc": rc0, "tail": out0[-200:]}
        meta["demo_with_change"] = {"rc": rc1, "tail": out1[-300:]}
        meta["confirmed"] = bool(ok and rc0 == 0 and rc1 != 0)
        meta["checks"] = {}
        for p in props:
            meta["checks"][p] = run_check(pat, p, a.tier, tmp, a.shards)
        meta["caught_by"] = [p for p, r in meta["checks"].items() if r["rc"] == 1]
        meta["what_was_run"] = ("scratch copies of /repo HEAD under %s (removed afterwards); git apply patch.diff; repository tests "
                                "(/venv/bin/python -m pytest -q -x); demo.py on clean and patched copy; REPO=<patched copy> ./check <ID> --tier %s "
                                "for %s" % (os.path.dirname(tmp) or "/tmp", a.tier, ",".join(props)))
    finally:
        shutil.rmtree(tmp, ignore_errors=True)
    if a.needs:
        meta["needs_to_manifest"] = a.needs
    dst = os.path.join(VERIF, "seeded", a.seed_id)
    os.makedirs(dst, exist_ok=True)
    if os.path.realpath(a.src) != os.path.realpath(dst):
        shutil.copy(patch, os.path.join(dst, "patch.diff"))
        shutil.copy(demo, os.path.join(dst, "demo.py"))
        notes = os.path.join(a.src, "notes.md")
        if os.path.exists(notes):
            shutil.copy(notes, os.path.join(dst, "notes.md"))
    old = {}
    mp = os.path.join(dst, "meta.json")
    if os.path.exists(mp):
        old = json.load(open(mp))
        hist = old.get("history", [])
        hist.append({k: old.get(k) for k in ("at", "tier", "caught_by")})
        meta["history"] = hist
        if not a.needs and old.get("needs_to_manifest"):
            meta["needs_to_manifest"] = old["needs_to_manifest"]
    json.dump(meta, open(mp, "w"), indent=1)
    print(json.dumps({k: meta[k] for k in ("seed_id", "confirmed", "repo_tests_pass_with_change", "caught_by")}, indent=0))
    for p, r in meta["checks"].items():
        print(p, r["rc"], r["s"], r["witness"][:300])
    return 0


if __name__ == "__main__":
    sys.exit(main())
