# Lifecycle engine: differential executions.
#   C11 reopen : history on A with close+reopen inserted vs never-closed B
#   C11 clear  : prefix history, clear(rules') then H   vs   fresh(rules') then H
#   C15 memfile: same history on Traph(folder=None) and on a fresh folder
# Oracle: equal write reports, equal battery digests, equal discrepancy sets
# against the model, (C15) equal final store bytes and mmap reader == storage.
import hashlib
import os
import random
import time
import traceback
from collections import Counter

from .. import battery as B
from .. import monitors as M
from ..gen import make_pool, make_cfg, gen_history, neighbours, RX
from ..harness import Sut, D
from .history import features


def build_case(rng, spec, tier, prop):
    prof = spec["profile"]
    tp = spec[tier]
    modes = prof["modes"]
    mode = rng.choice(modes)
    pool, text = make_pool(rng, n=rng.choice(prof.get("pool", (12, 24))), classes=prof.get("classes", ("real",)),
                           long_ok=prof.get("long", False))
    backends = ("file",) if mode in ("reopen", "memfile") else ("file", "memory")
    cfg = make_cfg(rng, pool, backends=backends, rule_prob=prof.get("rule_prob", 0.6))
    nops = rng.choice(tp.get("nops", (20, 40)))
    w = dict(prof.get("weights", {}))
    w["reopen"] = 0
    w["clear"] = 1 if mode == "memfile" else 0
    ops = gen_history(rng, cfg, pool, text, nops, weights=w)
    w["clear"] = 0
    case = {"engine": "lifecycle", "mode": mode, "cfg": cfg, "ops": ops, "aseed": rng.getrandbits(32),
            "audit_every": rng.choice(tp.get("audit_every", (3, 5)))}
    if mode == "reopen":
        if tp.get("every_position") and len(ops) <= 25:
            case["positions"] = list(range(len(ops) + 1))
        else:
            n = rng.choice(tp.get("n_reopens", (1, 2, 4)))
            pos = sorted(rng.randrange(len(ops) + 1) for _ in range(n))
            if rng.random() < 0.2:
                pos = [0] + pos  # immediately after construction
            if rng.random() < 0.2 and pos:
                pos.append(pos[-1])  # repeated reopen at one position
            case["positions"] = sorted(pos)
    elif mode == "clear":
        case["clear_at"] = rng.randrange(1, max(2, len(ops) // 2))
        rules = []
        seen = set()
        from ..gen import some_prefix, ANCHOR_RULES
        for _ in range(rng.randint(0, 3)):
            a = some_prefix(rng, rng.choice(pool), 2, 4)
            if a.startswith(b"s:") and a not in seen:
                seen.add(a)
                rules.append([a, rng.choice(ANCHOR_RULES[:4])])
        case["clear_default"] = rng.choice(["domain", "subdomain"])
        case["clear_rules"] = rules
        # the history after the clear must be generated against the new rules
        cfg2 = dict(cfg)
        cfg2["default"] = case["clear_default"]
        cfg2["rules"] = rules
        case["ops_after"] = gen_history(rng, cfg2, pool, text, nops, weights=w)
    return case


def stores_of(t):
    """[(storage object, block size)] of a file-backed index, found through the two store objects (their
    `storage` attribute) or the Traph's own attributes; storages without map() are left out."""
    out = []
    for store, attr, size in ((getattr(t, "lru_trie", None), "lru_trie_storage", 128), (getattr(t, "link_store", None), "links_store_storage", 16)):
        st = getattr(store, "storage", None)
        if st is None:
            st = getattr(t, attr, None)
        if st is not None and hasattr(st, "map") and hasattr(st, "read"):
            out.append((st, size))
    return out


def probes_for(sut, rng):
    m = sut.m
    nodes = sorted(m.nodes)
    rng.shuffle(nodes)
    ps = nodes[:6]
    for p in nodes[:4]:
        ps += neighbours(rng, p)[:2]
    return ps + [p for p in getattr(sut, "extra_probes", []) if p in m.nodes]


def big_case(rng, mode, n):
    """The scale history of the history engine (one webentity past the yield thresholds, hubs with
    thousands of links, a 1100-prefix creation; > 4000 trie blocks) under the three lifecycle oracles."""
    from .history import big_case as hbig

    h = hbig(rng, n, merged_prefixes=0)
    ops = [o for o in h["ops"] if o["op"] != "reopen"]
    cfg = dict(h["cfg"])
    cfg["backend"] = "file" if mode in ("reopen", "memfile") else rng.choice(["file", "memory"])
    case = {"engine": "lifecycle", "mode": mode, "cfg": cfg, "ops": ops, "aseed": rng.getrandbits(32), "audit_every": len(ops),
            "probes": h["probes"], "big": n}
    if mode == "reopen":
        case["positions"] = sorted({len(ops) // 2, len(ops)})
    elif mode == "clear":
        case["clear_at"] = len(ops)
        case["clear_default"] = "domain"
        case["clear_rules"] = []
        # the same shape again under other names: the same blocks and list heads, other LRUs
        h2 = hbig(random.Random(rng.getrandbits(32)), n, name=b"again", merged_prefixes=0)
        case["ops_after"] = [o for o in h2["ops"] if o["op"] != "reopen"]
        case["probes"] = h["probes"] + h2["probes"]
    return case


def compare(a, b, rng, stats, what, out, prop, at):
    """battery digests of two Suts."""
    pr = probes_for(a, random.Random(rng.getrandbits(32)))
    fa, fb = [], []
    lite = "scale" if getattr(a, "extra_probes", None) else False
    ansa, ca = B.run(a.t, pr, foreign=fa, lite=lite)
    ansb, cb = B.run(b.t, pr, foreign=fb, lite=lite)
    stats["battery_comparisons"] += 1
    stats["battery_answers_compared"] += len(ansa)
    if B.digest(ansa) != B.digest(ansb):
        out.append(D([prop], what + "-answers-differ", at_op=at, diff=B.diff(ansa, ansb)))
        return False
    return True


def run_case(prop, case, spec, scratch, stats):
    mode = case["mode"]
    rng = random.Random(case["aseed"])
    out = []
    feats = {}
    digest = ""
    a = b = None
    try:
        if mode == "reopen":
            a = Sut(case["cfg"], scratch, stats)
            b = Sut(case["cfg"], scratch, Counter())
            a.extra_probes = b.extra_probes = case.get("probes", [])
            ops = case["ops"]
            pos = Counter(case["positions"])
            for i in range(len(ops) + 1):
                for _ in range(pos.get(i, 0)):
                    try:
                        a.reopen()
                    except Exception as e:
                        out.append(D([prop], "reopen-failed", at_op=i, exc=type(e).__name__, msg=str(e)[:200], tb=traceback.format_exc()[-400:]))
                        return out, feats, digest
                    stats["C11_reopens"] += 1
                    if a.closed_sizes[0] % 128 or a.closed_sizes[1] % 16:
                        out.append(D([prop], "closed-file-not-whole-blocks", sizes=a.closed_sizes, at_op=i))
                    if not compare(a, b, rng, stats, "after-reopen", out, prop, i):
                        return out, feats, digest
                if i == len(ops):
                    break
                if not step(a, b, ops[i], i, out, prop, stats):
                    return out, feats, digest
                if (i + 1) % case["audit_every"] == 0 or i == len(ops) - 1:
                    if not compare(a, b, rng, stats, "evolution", out, prop, i):
                        return out, feats, digest
                    da = a.audit(rng, {"C01", "C03", "C04"})
                    if da:
                        out.append(D([prop], "reopened-index-diverges-from-model", at_op=i, first=da[0]))
                        return out, feats, digest
            sa, sb = M.store_bytes(a.t), M.store_bytes(b.t)
            if sa != sb:
                stats["note_bytes_differ_with_equal_answers"] += 1
        elif mode == "clear":
            a = Sut(case["cfg"], scratch, stats)
            a.extra_probes = case.get("probes", [])
            for i, op in enumerate(case["ops"][: case["clear_at"]]):
                a.apply(op)
                if a.dead:
                    return out, feats, digest
                if rng.random() < 0.3:
                    B.run(a.t, probes_for(a, rng), lite=True)  # reads before the clear (caches must not survive it)
                    stats["C11_batteries_before_clear"] += 1
                if a.cfg["backend"] == "file" and rng.random() < 0.15:
                    a.reopen()
            if rng.random() < 0.5 or case.get("big"):
                B.run(a.t, probes_for(a, rng), lite="scale" if case.get("big") else True)
                stats["C11_batteries_before_clear"] += 1
            clear_op = {"op": "clear", "default": case["clear_default"], "rules": case["clear_rules"]}
            ds = a.apply(clear_op)
            stats["C11_clears"] += 1
            if not ds and not case.get("big") and rng.random() < 0.25:
                ds = a.apply(clear_op)  # clearing twice in a row is clearing once
                stats["C11_clears"] += 1
                stats["C11_double_clears"] += 1
            if ds:
                out.append(D([prop], "clear-failed", first=ds[0]))
                return out, feats, digest
            cfg2 = dict(case["cfg"])
            cfg2["default"] = case["clear_default"]
            cfg2["rules"] = case["clear_rules"]
            cfg2["overwrite"] = False
            b = Sut(cfg2, scratch, Counter())
            b.extra_probes = case.get("probes", [])
            if not compare(a, b, rng, stats, "cleared-vs-fresh", out, prop, -1):
                return out, feats, digest
            ops = case["ops_after"]
            # a cleared on-file index is also closed and reopened at some point of what follows (the fresh one is not)
            reopen_at = rng.randrange(1, len(ops) + 1) if (a.cfg["backend"] == "file" and ops and not case.get("big") and rng.random() < 0.3) else None
            for i, op in enumerate(ops):
                if i == reopen_at:
                    a.reopen()
                    stats["C11_reopens_after_clear"] += 1
                    if not compare(a, b, rng, stats, "cleared-reopened-vs-fresh", out, prop, i):
                        return out, feats, digest
                if not step(a, b, op, i, out, prop, stats):
                    return out, feats, digest
                if (i + 1) % case["audit_every"] == 0 or i == len(ops) - 1:
                    if not compare(a, b, rng, stats, "cleared-vs-fresh", out, prop, i):
                        return out, feats, digest
            if reopen_at == len(ops):
                a.reopen()
                stats["C11_reopens_after_clear"] += 1
                if not compare(a, b, rng, stats, "cleared-reopened-vs-fresh", out, prop, len(ops)):
                    return out, feats, digest
            sa, sb = M.store_bytes(a.t), M.store_bytes(b.t)
            if sa != sb:
                stats["note_bytes_differ_with_equal_answers"] += 1
        elif mode == "memfile":
            cm = dict(case["cfg"])
            cm["backend"] = "memory"
            a = Sut(cm, scratch, stats)  # memory
            b = Sut(case["cfg"], scratch, Counter())  # fresh folder
            a.extra_probes = b.extra_probes = case.get("probes", [])
            if not compare(a, b, rng, stats, "memory-vs-file", out, prop, -1):
                return out, feats, digest
            ops = case["ops"]
            held = []  # memory-mapped readers opened in mid-history and kept open while the stores grow
            mid = rng.randrange(len(ops)) if ops and rng.random() < 0.6 else None
            for i, op in enumerate(ops):
                if i == mid:
                    for st, size in stores_of(b.t):
                        try:
                            mp0 = st.map()
                            held.append(mp0)
                            mp0.read(0)  # (not compared here: what a mapping shows of writes still buffered is not specified)
                            stats["C15_mmap_readers_held_open"] += 1
                        except (ValueError, OSError):
                            pass  # an empty file cannot be mapped
                if not step(a, b, op, i, out, prop, stats):
                    return out, feats, digest
                if (i + 1) % case["audit_every"] == 0 or i == len(ops) - 1:
                    if not compare(a, b, rng, stats, "memory-vs-file", out, prop, i):
                        return out, feats, digest
            sa, sb = M.store_bytes(a.t), M.store_bytes(b.t)
            stats["C15_store_comparisons"] += 1
            if sa != sb:
                out.append(D([prop], "final-store-bytes-differ", trie_equal=sa[0] == sb[0], links_equal=sa[1] == sb[1],
                             lens=(len(sa[0]), len(sb[0]), len(sa[1]), len(sb[1]))))
                return out, feats, digest
            # memory-mapped reader vs storage reads
            for st, size in stores_of(b.t):
                mp = st.map()
                try:
                    n = len(sb[0]) if size == 128 else len(sb[1])
                    order = list(range(0, n, size))
                    if rng.random() < 0.7:
                        rng.shuffle(order)  # any order, and block 0 again after other blocks
                        order.append(0)
                    for blk in order:
                        stats["C15_mmap_blocks_compared"] += 1
                        x = mp.read(blk)
                        y = st.read(blk)
                        if bytes(x or b"") != bytes(y or b""):
                            out.append(D([prop], "mmap-reader-differs", block=blk, store=size))
                            return out, feats, digest
                    try:
                        past = mp.read(n)
                    except Exception:
                        past = None  # refusing to read past the end is as good as returning nothing
                    if past is not None and bytes(past) != b"":
                        out.append(D([prop], "mmap-reader-past-end", store=size))
                finally:
                    mp.release()
            for mp0 in held:
                try:
                    mp0.release()
                except Exception:
                    pass
        feats = features(a)
        feats["mode"] = mode
        feats["positions"] = len(case.get("positions", []))
        sa = M.store_bytes(a.t)
        digest = mode + hashlib.sha256(sa[0] + b"/" + sa[1]).hexdigest()[:16]
    except Exception as e:
        out.append(D([prop], "harness-exception", exc=type(e).__name__, msg=str(e)[:200], tb=traceback.format_exc()[-700:]))
    finally:
        for s in (a, b):
            if s is not None:
                s.close()
    return out, feats, digest


def step(a, b, op, i, out, prop, stats):
    da = a.apply(op)
    db = b.apply(op)
    stats["lockstep_ops"] += 1
    ka = sorted((d["kind"], d["detail"].get("exc")) for d in da)
    kb = sorted((d["kind"], d["detail"].get("exc")) for d in db)
    if ka != kb:
        out.append(D([prop], "one-side-diverges", at_op=i, op=op["op"], side_a=da[:1], side_b=db[:1]))
        return False
    if a.last_report != b.last_report:
        out.append(D([prop], "write-reports-differ", at_op=i, op=op["op"], a=a.last_report, b=b.last_report))
        return False
    if a.last_report is not None:
        stats["reports_compared"] += 1
    if a.dead or b.dead:
        return False
    return True


def replay(prop, case):
    from .. import props as P

    M.install_m1()
    M.install_mem_write_counter()
    M.install_m2()
    ds, _, _ = run_case(prop, case, P.PROPS[prop], None, Counter())
    return ds


def run_shard(prop, spec, tier, seed, shard, nshards, scratch):
    from ..shard import save_case

    M.install_m1()
    M.install_mem_write_counter()
    M.install_m2()
    M.install_m6()
    tp = spec[tier]
    stats = Counter()
    res = {"cases": 0, "violations": [], "known": [], "samples": [], "nontrivial": [], "notes": [], "inconclusive": []}
    deadline = time.time() + tp.get("time_cap", 600)
    saved = 0
    modes = Counter()
    todo = [("gen", idx) for idx in range(tp["cases"]) if idx % nshards == shard]
    if tp.get("big"):
        for j, mode in enumerate(sorted(set(spec["profile"]["modes"]))):
            if (nshards - 1 - j) % nshards == shard:
                todo.insert(0, ("big", mode))
    for kind, idx in todo:
        if time.time() > deadline:
            res["notes"].append("shard %d stopped at time cap after %d cases" % (shard, res["cases"]))
            break
        if kind == "big":
            rng = random.Random("%s/%s/big/%s" % (seed, prop, idx))
            case = big_case(rng, idx, tp["big"])
            case["id"] = "big/%s" % idx
            idx = "big_" + idx
            stats["big_cases_past_the_thresholds"] += 1
        else:
            rng = random.Random("%s/%s/%s/%s" % (seed, prop, tier, idx))
            case = build_case(rng, spec, tier, prop)
            case["id"] = "%s/%s/%s/%s" % (seed, prop, tier, idx)
        ds, feats, digest = run_case(prop, case, spec, scratch, stats)
        res["cases"] += 1
        modes[case["mode"]] += 1
        if feats and spec["nontrivial"](feats):
            res["nontrivial"].append(digest)
        if len(res["samples"]) < 2 and feats.get("pages", 0) > 3:
            res["samples"].append({"mode": case["mode"], "cfg": case["cfg"], "positions": case.get("positions"), "first_ops": case["ops"][:4],
                                   "n_ops": len(case["ops"]), "final_state": feats})
        for d in ds:
            if prop not in d["props"]:
                continue
            entry = {"discrepancy": d, "case": case["id"]}
            if saved < 4:
                saved += 1
                c = dict(case)
                c["violation"] = d
                entry["case_file"] = save_case(prop, seed, shard, idx, c)
            res["violations"].append(entry)
            break
    stats.update({"mode:" + k: v for k, v in modes.items()})
    res["counters"] = dict(stats)
    res["monitors"] = dict(M.STATUS)
    res["reach"] = M.reach_for(spec.get("anchors", []))
    return res
