# Pure-law engine (C17): runtime contracts on the real lru_variations /
# Traph.expand_prefix over an exhaustively enumerated bounded grammar, random
# G-var LRUs, and the end-to-end consequence on fresh indexes.
import itertools
import random
import shutil
import tempfile
import time
import traceback
from collections import Counter

from .. import monitors as M
from ..gen import RX
from ..harness import D
from ..util import stems, import_traph

import_traph()
import traph.helpers as TH  # noqa: E402
import traph.traph as TT  # noqa: E402
from traph import Traph  # noqa: E402

SCHEMES = [b"s:http|", b"s:https|", b"s:ftp|"]
PORTS = [b"", b"t:80|"]
HOSTS = [b"h:com|", b"h:a|", b"h:www|"]
PATHS = [b"p:x|", b"p:s:http|", b"p:s:https|", b"p:xs:http|", b"p:h:www|", b"p:h:|", b"q:h:www|"]

EVALS = Counter()
FAILS = []


class ContractBroken(Exception):
    pass


def split(lru):
    """(scheme stem, port stems, host stems, rest) by the C17 grammar."""
    st = stems(lru)
    i = 1
    if len(st) > 1 and st[1].startswith(b"t:"):
        i = 2
    j = i
    while j < len(st) and st[j].startswith(b"h:"):
        j += 1
    return st[0] if st else b"", st[1:i], st[i:j], st[j:]


def shape_ok(lru, v):
    s0, p0, h0, r0 = split(lru)
    s1, p1, h1, r1 = split(v)
    if p0 != p1 or r0 != r1:
        return False
    if s0 != s1 and {s0, s1} != {b"s:http|", b"s:https|"}:
        return False
    if h0 != h1:
        if h1 == h0 + [b"h:www|"] or h0 == h1 + [b"h:www|"]:
            return True
        return False
    return True


def contract(fn, name):
    """pre/postcondition wrapper around the real function."""

    def wrapped(lru):
        EVALS[name] += 1
        try:
            out = fn(lru)
        except Exception as e:
            FAILS.append(("raises", name, lru, "%s: %s" % (type(e).__name__, e)))
            raise
        try:
            out_l = list(out)
        except TypeError:
            out_l = []
        if not out_l or out_l[0] != lru:
            FAILS.append(("prefix-not-first", name, lru, out))
        elif len(set(out_l)) != len(out_l):
            FAILS.append(("entry-twice", name, lru, out))
        else:
            for v in out_l:
                if not shape_ok(lru, v):
                    FAILS.append(("changes-more-than-scheme-and-www", name, lru, v))
                    break
        return out

    wrapped._vt_contract = True
    return wrapped


def install():
    ok = True
    if hasattr(TH, "lru_variations") and not getattr(TH.lru_variations, "_vt_contract", False):
        TH.lru_variations = contract(TH.lru_variations, "helpers.lru_variations")
    if hasattr(TT, "lru_variations"):
        if not getattr(TT.lru_variations, "_vt_contract", False):
            TT.lru_variations = contract(TT.lru_variations, "traph.lru_variations(bound name)")
    else:
        ok = False
        # the package may call helpers.lru_variations through the module instead of binding the name: the wrapped
        # helper is then the only contract site, and the counter of the bound name is not a deciding one
        M.STATUS["optional:contract_evals:traph.lru_variations(bound name)"] = "absent"
    M.STATUS["contract:lru_variations"] = "on" if ok else "absent: traph.traph.lru_variations"


def grammar(max_hosts, max_paths):
    for sch in SCHEMES:
        for port in PORTS:
            for nh in range(max_hosts + 1):
                for hs in itertools.product(HOSTS, repeat=nh):
                    if nh >= 2 and hs[-1] == b"h:www|" and hs[-2] == b"h:www|":
                        continue
                    for np_ in range(max_paths + 1):
                        for ps in itertools.product(PATHS, repeat=np_):
                            yield sch + port + b"".join(hs) + b"".join(ps)


def check_lru(lru, fn, out, stats, seen_classes):
    before = len(FAILS)
    try:
        V = fn(lru)
    except Exception as e:
        out.append(D(["C17"], "variations-raise", lru=lru, exc=type(e).__name__, msg=str(e)[:100]))
        return
    if len(FAILS) > before:
        k = FAILS[before]
        out.append(D(["C17"], "variations-" + k[0], lru=lru, got=k[3]))
        return
    # the same postconditions on what this entry point returned (it may not go through the wrapped helper)
    Vl = list(V) if V is not None else []
    if not Vl or Vl[0] != lru:
        out.append(D(["C17"], "variations-prefix-not-first", lru=lru, got=Vl[:4]))
        return
    if len(set(Vl)) != len(Vl):
        out.append(D(["C17"], "variations-entry-twice", lru=lru, got=Vl[:6]))
        return
    for v in Vl:
        if not shape_ok(lru, v):
            out.append(D(["C17"], "variations-changes-more-than-scheme-and-www", lru=lru, got=v))
            return
    stats["C17_lrus"] += 1
    if len(V) > 1:
        seen_classes.add(frozenset(V))
    for v in V[1:]:
        try:
            W = fn(v)
        except Exception as e:
            out.append(D(["C17"], "variations-raise", lru=v, member_of=lru, exc=type(e).__name__))
            return
        stats["C17_closure_checks"] += 1
        if set(W) != set(V):
            out.append(D(["C17"], "class-not-closed", lru=lru, variations=V, member=v, member_variations=W))
            return


def end_to_end(rng, stats, out, n):
    """Same site, different variation first => same prefix set for the created webentity."""
    for _ in range(n):
        sch = rng.choice([b"s:http|", b"s:https|"])
        port = rng.choice(PORTS)
        hosts = [b"h:com|", rng.choice([b"h:a|", b"h:b|", b"h:Example|"])] + ([rng.choice([b"h:c|", b"h:WWW|", b"h:Www|"])] if rng.random() < 0.35 else [])
        if rng.random() < 0.12:
            # deep hosts (many labels), as the subdomain rule sees them
            hosts += [rng.choice([b"h:d|", b"h:e|", b"h:f|"]) for _ in range(rng.choice([3, 4, 5, 6, 7, 9, 12]))]
        # path stems incl. exact block-payload lengths (73, 74, 75, 148 bytes): the prefix a path rule
        # proposes then ends with such a stem
        e2e_paths = PATHS + [b"p:" + b"x" * (n - 3) + b"|" for n in (73, 74, 75, 148)]
        path = b"".join(rng.choice(e2e_paths) for _ in range(rng.randint(0, 2)))
        site = sch + port + b"".join(hosts)
        default = rng.choice(["domain", "subdomain"])
        rules = {}
        if rng.random() < 0.5 and path:
            rules = {site: RX["path1"]}
        import re

        K = (re.compile(RX["path1"], re.I).search(site + path) if rules else None) or re.compile(RX[default], re.I).search(site + path)
        if not K:
            continue
        K = K.group()
        # "whichever variation of the site was seen first": the variations are taken from the property's
        # own notion (scheme swap, trailing www), not from the function under test
        from ..model import variations as model_variations

        members = model_variations(K)
        results = []
        anchor_mode = rng.random() < 0.6
        mem = rng.random() < 0.7
        for first in members:
            anchors = model_variations(site)
            if anchor_mode:
                # rules anchored on the bare (non-www) forms only: the www forms are reached through them
                fewest = min(v.count(b"|h:") for v in anchors)
                anchors = [v for v in anchors if v.count(b"|h:") == fewest]
            t = Traph(folder=None if mem else tempfile.mkdtemp(prefix="vt17", dir=None), default_webentity_creation_rule=RX[default],
                      webentity_creation_rules={v: RX["path1"] for v in anchors} if rules else {})
            suffix = (site + path)[len(K):]
            order = [first] + [x for x in members if x != first]
            created = []
            for x in order:
                r = t.add_page(x + suffix)
                created.append(sorted(map(sorted, r.created_webentities.values())))
            pre = sorted(l for _, l in t.webentity_prefix_iter())
            ids = {n_.webentity() for n_, l in t.webentity_prefix_iter() if l in set(members)}
            results.append((tuple(pre), len(ids)))
            stats["C17_end_to_end_indexes"] += 1
            folder = t.folder
            t.close()
            if folder:
                shutil.rmtree(folder, ignore_errors=True)
        if len(set(results)) != 1 or results[0][1] != 1:
            out.append(D(["C17"], "webentity-depends-on-first-variation", site=site, K=K, results=[list(r[0]) for r in results][:4],
                         ids=[r[1] for r in results]))
            return
        stats["C17_end_to_end_sites"] += 1


def run_shard(prop, spec, tier, seed, shard, nshards, scratch):
    from ..shard import save_case

    M.install_m6()
    install()
    tp = spec[tier]
    stats = Counter()
    res = {"cases": 0, "violations": [], "known": [], "samples": [], "nontrivial": [], "notes": [], "inconclusive": []}
    out = []
    classes = set()
    t = Traph(folder=None, default_webentity_creation_rule=RX["domain"], webentity_creation_rules={})
    fns = [("helpers.lru_variations", TH.lru_variations), ("Traph.expand_prefix", t.expand_prefix)]
    n = 0
    for i, lru in enumerate(grammar(tp["max_hosts"], tp["max_paths"])):
        if i % nshards != shard:
            continue
        n += 1
        for name, fn in fns:
            check_lru(lru, fn, out, stats, classes)
        if n <= 2 or (n % 1500 == 0 and len(res["samples"]) < 4):
            try:
                res["samples"].append({"lru": lru, "variations": TH.lru_variations(lru)})
            except Exception:
                res["samples"].append({"lru": lru, "variations": "raises"})
        if len(out) > 40:
            break
    res["exhaustive"] = len(out) <= 40
    stats["C17_grammar_lrus"] = n
    # degenerate prefixes ("never fails"): empty, one stem, no scheme, unknown scheme, only www
    if shard == 0:
        for lru in [b"", b"s:http|", b"s:https|", b"s:ftp|", b"s:ftp|h:com|h:a|", b"s:ftp|h:com|h:a|h:www|", b"h:www|", b"h:com|h:www|", b"h:com|h:a|",
                    b"t:80|", b"s:http|t:80|", b"s:http|h:www|", b"s:https|t:443|h:www|", b"p:x|", b"s:http|p:x|", b"s:http|t:80|p:x|",
                    b"s:https|h:www|p:www|", b"s:http|h:www|h:com|", b"S:HTTP|H:COM|H:A|"]:
            for name, fn in fns:
                check_lru(lru, fn, out, stats, classes)
            stats["C17_degenerate_inputs"] += 1
    # str input through expand_prefix
    for lru in itertools.islice(grammar(2, 1), shard, None, nshards * 7):
        check_lru(lru, lambda x: t.expand_prefix(x.decode("ascii")), out, stats, classes)
        stats["C17_str_inputs"] += 1
    # random G-var with binary path stems
    rng = random.Random("%s/C17/%s" % (seed, shard))
    for _ in range(tp["random"] // nshards):
        sch = rng.choice(SCHEMES)
        port = rng.choice(PORTS + [b"t:8080|"])
        hs = [rng.choice(HOSTS + [b"h:b|", b"h:localhost|", b"h:WWW|", b"h:Www|", b"h:Com|", b"h:wwww|", b"h:ww|"]) for _ in range(rng.choice([0, 1, 2, 2, 3, 3, 4, 4, 5, 6, 7, 8, 9, 12, 20]))]
        while len(hs) >= 2 and hs[-1] == b"h:www|" and hs[-2] == b"h:www|":
            hs.pop()
        ps = []
        for _ in range(rng.randint(0, 3)):
            body = bytes(rng.choice([0, 1, 0x7B, 0x7D, 0xFF, 0x68, 0x3A, 0x73, 0x77, 0x70]) for _ in range(rng.randint(0, 8)))
            ps.append(rng.choice([b"p:", b"q:", b"f:"]) + body + rng.choice([b"", b"s:http", b"s:https", b"h:www", b"h:"]) + b"|")
        lru = sch + port + b"".join(hs) + b"".join(ps)
        check_lru(lru, TH.lru_variations, out, stats, classes)
        stats["C17_random_lrus"] += 1
    if shard < 4:
        try:
            end_to_end(rng, stats, out, tp["e2e"])
        except Exception as e:
            out.append(D(["C17"], "end-to-end-exception", exc=type(e).__name__, msg=str(e)[:200], tb=traceback.format_exc()[-500:]))
    res["cases"] = stats["C17_lrus"]
    res["nontrivial"] = [repr(sorted(c))[:200] for c in classes]
    kinds = Counter()
    for d in out:
        kinds[d["kind"]] += 1
        if kinds[d["kind"]] > 2:
            continue
        case = {"engine": "purelaws", "lru": d["detail"].get("lru") or d["detail"].get("site"), "violation": d}
        res["violations"].append({"discrepancy": d, "case": "grammar", "case_file": save_case(prop, seed, shard, "%s%d" % (d["kind"], kinds[d["kind"]]), case)})
    stats.update({"contract_evals:" + k: v for k, v in EVALS.items()})
    res["counters"] = dict(stats)
    res["monitors"] = dict(M.STATUS)
    res["reach"] = M.reach_for(spec.get("anchors", []))
    return res


def replay(prop, case):
    install()
    out = []
    lru = case["lru"]
    t = Traph(folder=None, default_webentity_creation_rule=RX["domain"], webentity_creation_rules={})
    for fn in (TH.lru_variations, t.expand_prefix):
        check_lru(lru, fn, out, Counter(), set())
    if case.get("violation", {}).get("kind", "").startswith("webentity-depends") or case.get("violation", {}).get("kind", "").startswith("end-to-end"):
        end_to_end(random.Random(0), Counter(), out, 300)
    return out
