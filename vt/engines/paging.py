# Paging engine (C09 page pagination, C10 pagelink pagination).
# A state is built with the history engine's generator (so the model knows it),
# then every webentity is paged through with many page sizes, feeding tokens
# back, optionally inserting pages between calls.  Plus: exhaustive sibling
# shapes (thorough), the token codec law, and one isolated deep-chain probe.
import hashlib
import itertools
import os
import random
import subprocess
import sys
import time
import traceback
from collections import Counter

from .. import monitors as M
from ..gen import make_pool, make_cfg, gen_history, rules_ok, RX
from ..harness import Sut, D
from ..util import jdumps, stems, prefixes_of, VERIF, REPO
from .history import features

MAX_CALLS = 5000


def build_case(rng, spec, tier):
    prof = spec["profile"]
    tp = spec[tier]
    kind = rng.choices(["random", "shape", "chain", "many", "wide"],
                       [tp.get("w_random", 1), tp.get("w_shape", 0), tp.get("w_chain", 0.25), tp.get("w_many", 0.15), tp.get("w_wide", 0.04)])[0]
    if kind == "shape":
        return shape_case(rng, spec, tier)
    if kind == "chain":
        return chain_case(rng)
    if kind == "many":
        return manyprefix_case(rng)
    if kind == "wide":
        return wideids_case(rng)
    enc = "utf-8"
    pool, text = make_pool(rng, n=rng.choice(prof.get("pool", (16, 30))), classes=prof.get("classes", ("real",)), encoding=enc,
                           long_ok=prof.get("long", False))
    cfg = make_cfg(rng, pool, backends=prof.get("backends", ("file", "memory")), rule_prob=prof.get("rule_prob", 0.5))
    ops = gen_history(rng, cfg, pool, text, rng.choice(tp.get("nops", (25, 50))), weights=prof.get("weights"))
    mids = sorted({rng.randrange(len(ops)) for _ in range(rng.choice([0, 1, 2, 3]))}) if ops else []
    return {"engine": "paging", "kind": "random", "cfg": cfg, "ops": ops, "aseed": rng.getrandbits(32),
            "inserts": rng.random() < prof.get("insert_prob", 0.5), "mid_points": mids}


SHAPE_STEMS = [b"p:a|", b"p:b|", b"p:c|", b"p:d|", b"p:e|", b"p:f|"]


def shape_case(rng, spec, tier, perm=None, n=None, sub=None):
    """n <= 6 sibling stems inserted in a given permutation below one prefix,
    a second level below some of them: every sibling-BST shape of that size."""
    n = n or rng.randint(2, 6)
    perm = perm or rng.sample(range(n), n)
    head = b"s:http|h:com|h:shape|"
    pages = [head + SHAPE_STEMS[i] for i in perm]
    subperm = sub if sub is not None else rng.sample(range(n), rng.randint(0, min(4, n)))
    parent = head + SHAPE_STEMS[rng.randrange(n)]
    pages2 = [parent + SHAPE_STEMS[i] for i in subperm]
    ops = [{"op": "add_page", "lru": p, "crawled": rng.random() < 0.5, "as_str": False} for p in pages + pages2]
    if rng.random() < 0.5:
        # links so that C10 has link-bearing and link-less sources in this shape
        allp = pages + pages2
        ls = [[rng.choice(allp), rng.choice(allp)] for _ in range(rng.randint(1, 6))]
        ops.append({"op": "add_links", "links": ls, "as_str": False})
    cfg = {"backend": rng.choice(["file", "memory"]), "default": "domain", "encoding": "utf-8", "overwrite": False, "rules": []}
    return {"engine": "paging", "kind": "shape", "cfg": cfg, "ops": ops, "aseed": rng.getrandbits(32), "inserts": False,
            "all_k": True, "shape": [list(perm), list(subperm)]}


def chain_case(rng):
    """Long paths: 28-90 siblings inserted in sorted order (a degenerate sibling tree), or pages nested
    one below another, or both: tokens whose path has 27+ steps (beyond 53 bits, beyond one machine word)."""
    head = b"s:http|h:com|h:chain|"
    mode = rng.choice(["asc", "desc", "nested", "mixed"])
    n = rng.choice([28, 33, 40, 64, 65, 90])
    pages = []
    if mode in ("asc", "desc", "mixed"):
        sib = [head + b"p:%03d|" % i for i in range(n)]
        if mode == "desc":
            sib.reverse()
        pages += sib
    if mode in ("nested", "mixed"):
        cur = head + (b"p:%03d|" % (n - 1) if mode == "mixed" else b"")
        for i in range(n if mode == "nested" else 20):
            cur = cur + b"p:n%d|" % (i % 7)
            pages.append(cur)
    ops = [{"op": "add_pages", "lrus": pages[i:i + 10], "crawled": bool(i % 20), "as_str": False} for i in range(0, len(pages), 10)]
    ops.append({"op": "add_links", "links": [[pages[i], pages[(i * 7 + 3) % len(pages)]] for i in range(0, len(pages), 3)], "as_str": False})
    cfg = {"backend": rng.choice(["file", "memory"]), "default": "domain", "encoding": "utf-8", "overwrite": False, "rules": []}
    return {"engine": "paging", "kind": "chain", "cfg": cfg, "ops": ops, "aseed": rng.getrandbits(32), "inserts": rng.random() < 0.3,
            "max_we": 2, "chain": [mode, n]}


def manyprefix_case(rng):
    """One webentity with many prefixes (11 .. 70: prefix indexes of two decimal digits, beyond one
    base-64 digit), 0-3 pages below each, some prefixes being pages themselves, links between them."""
    head = b"s:http|h:com|h:many|"
    P = rng.choice([11, 12, 16, 40, 65, 70])
    prefixes = [head + b"p:%02d|" % i for i in range(P)]
    ops = [{"op": "create", "prefixes": list(prefixes)}]
    pages = []
    for pre in prefixes:
        if rng.random() < 0.3:
            pages.append(pre)
        for j in range(rng.choice([0, 1, 1, 2, 3])):
            pages.append(pre + b"p:%c|" % (97 + j))
    rng.shuffle(pages)
    ops += [{"op": "add_pages", "lrus": pages[i:i + 25], "crawled": bool((i // 25) % 2), "as_str": False} for i in range(0, len(pages), 25)]
    ops.append({"op": "add_links", "links": [[rng.choice(pages), rng.choice(pages)] for _ in range(len(pages))], "as_str": False})
    cfg = {"backend": rng.choice(["file", "memory"]), "default": "domain", "encoding": "utf-8", "overwrite": False, "rules": []}
    return {"engine": "paging", "kind": "many", "cfg": cfg, "ops": ops, "aseed": rng.getrandbits(32), "inserts": rng.random() < 0.3,
            "max_we": 1, "high_ids": False, "first_we": head + b"p:00|", "many": P}


def wideids_case(rng):
    """Webentity ids well past 256 (CPython's small-integer cache, one byte): the webentities with the
    highest ids are the ones paged through."""
    from .history import wide_case

    c = wide_case(rng, rng.choice([262, 300]))
    c.update({"engine": "paging", "kind": "wide", "inserts": False, "max_we": 5, "high_ids": True})
    return c


def prefix_args(sut, ps, salt):
    """The prefix list as the caller may give it: bytes, or text for some prefixes (Sut.W chooses by
    content), as a list or - every third call - a tuple."""
    out = [sut.W(p) for p in ps]
    return tuple(out) if salt % 3 == 2 else out


def pick_webentities(sut, rng, case, default_max):
    byw = sut.m.webentities()
    gids = sorted(byw)
    rng.shuffle(gids)
    n = case.get("max_we", default_max)
    if case.get("high_ids"):
        top = sorted(gids, key=lambda g: -sut.idmap.get(g, 0))[: max(1, n - 1)]
        gids = top + [g for g in gids if g not in top]
    if case.get("first_we") is not None and case["first_we"] in sut.m.we:
        g0 = sut.m.we[case["first_we"]]
        gids = [g0] + [g for g in gids if g != g0]
    return byw, gids[:n]


# --------------------------------------------------------------------------
# C09
# --------------------------------------------------------------------------
def expected_pages(m, owner, gid, ps, crawled_only):
    out = []
    for p in ps:
        out += sorted(q for q, (w, pre) in owner.items() if w == gid and pre == p and (m.pages[q] or not crawled_only))
    return out


def insertion_candidates(rng, sut, ps, last):
    """Pages to insert between two calls: before / at / after the cursor, under
    other prefixes, and deep (possibly triggering automatic creation)."""
    c = []
    if last:
        st = stems(last)
        c.append(last + b"p:n|")  # just after the cursor (child)
        c.append(last + b"p:\x01|")
        s = st[-1]
        if len(s) > 1:
            for delta in (-1, 1):
                b = (s[-2] + delta) % 256
                if b != 0x7C:
                    c.append(b"".join(st[:-1]) + s[:-2] + bytes([b]) + b"|")
            c.append(b"".join(st[:-1]) + s[:-1] + b"0|")
        c.append(last)  # re-submission of the cursor page
    for p in ps:
        c.append(p + b"p:%d|" % rng.randint(0, 9))
        c.append(p + b"p:x|p:y|")
        c.append(p)
    c.append(b"s:http|h:org|h:elsewhere|p:%d|" % rng.randint(0, 3))
    return [x for x in c if rules_ok(x)]


def page_through(sut, w, ps, k, crawled_only, rng, stats, inserts, gid, ever=None):
    """Returns (accumulated lrus, error or None, n_calls, inserted)."""
    t = sut.t
    tok = None
    acc = []
    calls = 0
    inserted = 0
    while True:
        calls += 1
        if calls > MAX_CALLS:
            return acc, "no final answer after %d calls" % MAX_CALLS, calls, inserted
        r = t.paginate_webentity_pages(w, prefix_args(sut, ps, calls), page_count=k, pagination_token=tok, crawled_only=crawled_only)
        stats["C09_answers"] += 1
        pages = r["pages"]
        lr = [x["lru"] for x in pages]
        acc += lr
        if r.get("count") != len(pages):
            return acc, "count %r but %d pages" % (r.get("count"), len(pages)), calls, inserted
        if r.get("count_crawled") != sum(1 for x in pages if x["crawled"]):
            return acc, "count_crawled %r but %d crawled pages" % (r.get("count_crawled"), sum(1 for x in pages if x["crawled"])), calls, inserted
        for x in pages:
            if x["lru"] in sut.m.pages and bool(x["crawled"]) != sut.m.pages[x["lru"]]:
                return acc, "crawled mark of %r" % x["lru"], calls, inserted
        if r["done"]:
            break
        if len(pages) != k:
            return acc, "non-final answer with %d pages, asked %d" % (len(pages), k), calls, inserted
        tok = r.get("token")
        if not tok:
            return acc, "non-final answer without token", calls, inserted
        stats["C09_resumes"] += 1
        if inserts:
            cands = insertion_candidates(rng, sut, ps, lr[-1] if lr else None)
            for _ in range(rng.choice([0, 1, 1, 2, 3])):
                lru = rng.choice(cands)
                ds = sut.apply({"op": "add_page", "lru": lru, "crawled": rng.random() < 0.4, "as_str": False})
                inserted += 1
                stats["C09_insertions_between_calls"] += 1
                if sut.dead or ds:
                    return acc, "insertion diverged: %s" % (ds[:1],), calls, inserted
                if ever is not None:
                    # membership at this moment: a page may join W and leave it again (a later insertion can
                    # create a nested webentity above it) between the first and the last call
                    ever.update(expected_pages(sut.m, sut.m.page_owner(), gid, ps, False))
    return acc, None, calls, inserted


def audit_C09(sut, rng, stats, case):
    out = []
    m = sut.m
    byw, gids = pick_webentities(sut, rng, case, 6)
    for gid in gids:
        owner = m.page_owner()
        ps = list(byw[gid])
        rng.shuffle(ps)
        w = sut.idmap[gid]
        n = len([1 for q, (g, _) in owner.items() if g == gid])
        ks = sorted({1, 2, 3, 7, max(1, n - 1), max(1, n), n + 1}) if not case.get("all_k") else list(range(1, n + 2))
        for crawled_only in (False, True):
            for k in ks:
                inserts = case.get("inserts") and rng.random() < 0.5
                owner0 = m.page_owner()
                exp0 = expected_pages(m, owner0, gid, ps, crawled_only)
                ever_mid = set()
                try:
                    acc, err, calls, inserted = page_through(sut, w, ps, k, crawled_only, rng, stats, inserts, gid, ever_mid)
                except Exception as e:
                    out.append(D(["C09"], "exception-in-pagination", exc=type(e).__name__, msg=str(e)[:200], gid=gid, prefixes=ps, k=k,
                                 crawled_only=crawled_only, tb=traceback.format_exc()[-500:]))
                    return out
                stats["C09_paginations"] += 1
                if calls > 1:
                    stats["C09_multi_call_paginations"] += 1
                if err:
                    out.append(D(["C09"], "pagination-answer", error=err, gid=gid, prefixes=ps, k=k, crawled_only=crawled_only))
                    return out
                if sut.dead:
                    return out
                if not inserted:
                    if acc != exp0:
                        out.append(D(["C09"], "pagination-content", gid=gid, prefixes=ps, k=k, crawled_only=crawled_only,
                                     got=acc[:8], expected=exp0[:8], n_got=len(acc), n_expected=len(exp0)))
                        return out
                else:
                    stats["C09_paginations_with_insertions"] += 1
                    owner1 = m.page_owner()
                    exp1 = expected_pages(m, owner1, gid, ps, crawled_only)
                    # crawled marks may have been turned on in between: "in the webentity throughout"
                    through = [q for q in exp0 if q in set(exp1)]
                    c = Counter(acc)
                    rep = [q for q, v in c.items() if v > 1]
                    if rep:
                        out.append(D(["C09"], "pagination-repeat", gid=gid, prefixes=ps, k=k, repeated=rep[:4]))
                        return out
                    miss = [q for q in through if q not in c]
                    if miss:
                        out.append(D(["C09"], "pagination-skip", gid=gid, prefixes=ps, k=k, crawled_only=crawled_only, skipped=miss[:4]))
                        return out
                    ever = set(exp0) | set(exp1) | ever_mid | set(expected_pages(m, owner0, gid, ps, False))
                    if crawled_only:
                        ever |= set(expected_pages(m, owner1, gid, ps, False))
                    alien = [q for q in acc if q not in ever]
                    if alien:
                        out.append(D(["C09"], "pagination-alien", gid=gid, prefixes=ps, k=k, alien=alien[:4]))
                        return out
    return out


# --------------------------------------------------------------------------
# C10
# --------------------------------------------------------------------------
def audit_C10(sut, rng, stats, case):
    out = []
    m = sut.m
    t = sut.t
    owner = m.page_owner()
    byw, gids = pick_webentities(sut, rng, case, 8)
    for gid in gids:
        ps = list(byw[gid])
        rng.shuffle(ps)
        w = sut.idmap[gid]
        for ii, io in ((True, False), (False, True), (True, True)):
            full = t.get_webentity_pagelinks(w, ps, include_inbound=False, include_internal=ii, include_outbound=io)
            expc = Counter((s, x, wt) for s, x, wt in full)
            model = m.we_pagelinks(gid, ii, io, False, owner)
            if Counter({(s, x): wt for s, x, wt in full}) != model:
                out.append(D(["C08"], "unpaginated-differs-from-model", gid=gid))
            nsrc = len({s for s, _, _ in full})
            cs = sorted({1, 2, 3, max(1, nsrc), nsrc + 1}) if not case.get("all_k") else list(range(1, nsrc + 2))
            for c in cs:
                tok = None
                acc = Counter()
                calls = 0
                try:
                    while True:
                        calls += 1
                        if calls > MAX_CALLS:
                            out.append(D(["C10"], "no-final-answer", gid=gid, c=c))
                            return out
                        r = t.paginate_webentity_pagelinks(w, prefix_args(sut, ps, calls), include_internal=ii, include_outbound=io,
                                                           source_page_count=c, pagination_token=tok)
                        stats["C10_answers"] += 1
                        pl = r["pagelinks"]
                        srcs = {s for s, _, _ in pl}
                        acc.update((s, x, wt) for s, x, wt in pl)
                        if r.get("count_pagelinks") != len(pl) or r.get("count_sourcepages") != len(srcs):
                            out.append(D(["C10"], "pagelink-counts", gid=gid, c=c, count_pagelinks=r.get("count_pagelinks"),
                                         count_sourcepages=r.get("count_sourcepages"), links=len(pl), sources=len(srcs)))
                            return out
                        if r["done"]:
                            break
                        if len(srcs) != c:
                            out.append(D(["C10"], "non-final-source-count", gid=gid, asked=c, got=len(srcs)))
                            return out
                        tok = r.get("token")
                        if not tok:
                            out.append(D(["C10"], "non-final-without-token", gid=gid, c=c))
                            return out
                        stats["C10_resumes"] += 1
                except Exception as e:
                    out.append(D(["C10"], "token-cannot-be-resumed", gid=gid, prefixes=ps, c=c, internal=ii, outbound=io, token=tok,
                                 call=calls, exc=type(e).__name__, msg=str(e)[:160]))
                    return out
                stats["C10_paginations"] += 1
                if calls > 1:
                    stats["C10_multi_call_paginations"] += 1
                if acc != expc:
                    out.append(D(["C10"], "pagelink-content", gid=gid, prefixes=ps, c=c, internal=ii, outbound=io,
                                 missing=sorted((expc - acc).keys())[:4], extra_or_repeated=sorted((acc - expc).keys())[:4]))
                    return out
    return out


# --------------------------------------------------------------------------
# token codec (C09, exhaustive in small scope)
# --------------------------------------------------------------------------
def codec_law(rng, stats, maxlen, n_random):
    from traph.helpers import build_pagination_token, parse_pagination_token

    out = []

    def one(i, digits):
        path = 0
        for d in digits:
            path = path * 4 + d
        tok = build_pagination_token(i, path)
        back = parse_pagination_token(tok)
        stats["C09_codec_roundtrips"] += 1
        if tuple(back) != (i, path) or not isinstance(tok, str):
            out.append(D(["C09"], "token-codec", i=i, path=path, token=tok, back=list(back)))
            return False
        return True

    for L in range(0, maxlen + 1):
        for digits in itertools.product((1, 2, 3), repeat=L):
            if not one(L % 3, digits):
                return out
    for _ in range(n_random):
        digits = [rng.choice((1, 2, 3)) for _ in range(rng.choice([1, 5, 31, 32, 33, 100, 400]))]
        if not one(rng.choice([0, 1, 7, 9, 10, 11, 63, 64, 99, 100, 255, 256, 4095, 4096, 10 ** 6]), digits):
            return out
    return out


# --------------------------------------------------------------------------
# deep chain probe (F8), isolated in its own subprocess
# --------------------------------------------------------------------------
DEEP_SNIPPET = r'''
import sys, warnings
sys.path.insert(0, %(repo)r); sys.path.insert(0, %(verif)r)
warnings.simplefilter("ignore")
from traph import Traph
from vt.gen import RX
n = %(n)d
mode = %(mode)r
t = Traph(folder=None, default_webentity_creation_rule=RX["domain"], webentity_creation_rules={})
pre = b"s:http|h:com|h:deep|"
pages = [pre + b"p:%%05d|" %% i for i in range(n)]
for p in pages: t.add_page(p)
t.add_links([(pages[i], pages[0]) for i in range(0, n, 1 if mode == 'links' else 7)])
w = t.retrieve_webentity(pages[0]); ps = [pre, b"s:https|h:com|h:deep|"]
ps = [p for p in ps if t.lru_trie.lru_node(p) is not None]
if mode == "pages":
    tok = None; acc = []
    while True:
        r = t.paginate_webentity_pages(w, ps, page_count=%(k)d, pagination_token=tok)
        acc += [x["lru"] for x in r["pages"]]
        if r["done"]: break
        tok = r["token"]
    print("RESULT", "ok" if acc == pages else "wrong-content %%d/%%d" %% (len(acc), len(pages)))
else:
    tok = None; acc = []
    while True:
        r = t.paginate_webentity_pagelinks(w, ps, source_page_count=%(k)d, pagination_token=tok)
        acc += [tuple(x) for x in r["pagelinks"]]
        if r["done"]: break
        tok = r["token"]
    exp = sorted(tuple(x) for x in t.get_webentity_pagelinks(w, ps))
    print("RESULT", "ok" if sorted(acc) == exp else "wrong-content %%d/%%d" %% (len(acc), len(exp)))
'''


def deep_probe(mode, n, k, timeout=240):
    """Returns ('ok'|'wrong-content...'|'RecursionError'|'signal N'|'timeout'|'other: ...')."""
    code = DEEP_SNIPPET % {"repo": REPO, "verif": VERIF, "n": n, "mode": mode, "k": k}
    env = dict(os.environ)
    env["PYTHONDONTWRITEBYTECODE"] = "1"
    try:
        p = subprocess.run([sys.executable, "-c", code], capture_output=True, text=True, timeout=timeout, env=env)
    except subprocess.TimeoutExpired:
        return "timeout"
    if p.returncode < 0:
        return "signal %d" % (-p.returncode)
    for line in p.stdout.splitlines():
        if line.startswith("RESULT"):
            return line.split(" ", 1)[1]
    if "RecursionError" in p.stderr:
        return "RecursionError"
    return "other: rc=%s %s" % (p.returncode, p.stderr[-300:])


# --------------------------------------------------------------------------
def run_case(prop, case, spec, scratch, stats):
    sut = Sut(case["cfg"], scratch, stats)
    rng = random.Random(case["aseed"])
    ds = []
    feats = {}
    digest = ""
    try:
        # paginations also at intermediate points: state a request keeps across calls
        # (memos, cached nodes) must survive later inserts, reopen and clear
        mids = set(case.get("mid_points", []))
        for i, op in enumerate(case["ops"]):
            if i in mids and not sut.dead:
                small = dict(case)
                small["max_we"] = 2
                small["inserts"] = False
                stats["mid_history_pagination_points"] += 1
                ds += audit_C09(sut, rng, stats, small) if prop == "C09" else audit_C10(sut, rng, stats, small)
                if any(prop in d["props"] for d in ds):
                    break
            new = sut.apply(op)
            for d in new:
                d["at_op"] = i
            ds += new
            if sut.dead:
                break
        if not sut.dead and not any(prop in d["props"] for d in ds):
            a, b = M.store_bytes(sut.t)
            digest = hashlib.sha256(a + b"/" + b).hexdigest()[:16]
            feats = features(sut)
            if prop == "C09":
                ds += audit_C09(sut, rng, stats, case)
            else:
                ds += audit_C10(sut, rng, stats, case)
    finally:
        sut.close()
    return ds, feats, digest


def replay(prop, case):
    from .. import props as P

    M.install_m1()
    M.install_mem_write_counter()
    M.install_m2()
    ds, _, _ = run_case(prop, case, P.PROPS[prop], None, Counter())
    return ds


def run_shard(prop, spec, tier, seed, shard, nshards, scratch):
    from ..shard import save_case

    M.install_m1()
    M.install_mem_write_counter()
    M.install_m2()
    M.install_m6()
    tp = spec[tier]
    stats = Counter()
    res = {"cases": 0, "violations": [], "known": [], "samples": [], "nontrivial": [], "notes": [], "inconclusive": []}
    deadline = time.time() + tp.get("time_cap", 600)
    saved = 0
    other = Counter()

    def judge(ds, case, idx):
        nonlocal saved
        for d in ds:
            if prop not in d["props"]:
                other[d["kind"]] += 1
                continue
            entry = {"discrepancy": d, "case": case.get("id")}
            if saved < 4:
                saved += 1
                c = dict(case)
                c["violation"] = d
                entry["case_file"] = save_case(prop, seed, shard, idx, c)
            res["violations"].append(entry)
            break

    # 1. exhaustive shapes (thorough) + random states
    todo = []
    if tp.get("exhaustive_shapes"):
        nmax = tp["exhaustive_shapes"]
        j = 0
        for n in range(1, nmax + 1):
            for perm in itertools.permutations(range(n)):
                if j % nshards == shard:
                    todo.append(("shape", n, perm))
                j += 1
        res["exhaustive"] = True
    for idx in range(tp["cases"]):
        if idx % nshards == shard:
            todo.append(("gen", idx, None))
    nontriv = spec["nontrivial"]
    for kind, a, b in todo:
        if time.time() > deadline:
            res["notes"].append("shard %d stopped at time cap after %d cases" % (shard, res["cases"]))
            if tp.get("exhaustive_shapes"):
                res["exhaustive"] = False
            break
        if kind == "shape":
            rng = random.Random("%s/%s/shape/%s/%s" % (seed, prop, a, b))
            case = shape_case(rng, spec, tier, perm=list(b), n=a)
            case["id"] = "shape/%s/%s" % (a, "".join(map(str, b)))
            idx = "shape%s_%s" % (a, "".join(map(str, b)))
            stats["exhaustive_shape_cases"] += 1
        else:
            rng = random.Random("%s/%s/%s/%s" % (seed, prop, tier, a))
            case = build_case(rng, spec, tier)
            case["id"] = "%s/%s/%s/%s" % (seed, prop, tier, a)
            idx = a
            stats["cases_of_kind:%s" % case.get("kind")] += 1
        ds, feats, digest = run_case(prop, case, spec, scratch, stats)
        res["cases"] += 1
        if feats and nontriv(feats):
            res["nontrivial"].append(digest)
        if len(res["samples"]) < 2 and feats.get("pages", 0) > 3:
            res["samples"].append({"kind": case["kind"], "cfg": case["cfg"], "first_ops": case["ops"][:5], "n_ops": len(case["ops"]),
                                   "final_state": feats, "insertions_between_calls": case.get("inserts")})
        judge(ds, case, idx)
    # 2. codec law + deep-chain probe: shard 0 only
    if shard == 0:
        import_ok = True
        if prop == "C09":
            rng = random.Random("%s/%s/codec" % (seed, prop))
            try:
                ds = codec_law(rng, stats, tp.get("codec_len", 6), tp.get("codec_random", 300))
            except Exception as e:
                ds = [D(["C09"], "token-codec-exception", exc=repr(e))]
            judge(ds, {"id": "codec", "engine": "paging", "kind": "codec"}, "codec")
        n = tp.get("deep_n", 1200)
        k = max(1, n - 40)
        mode = "pages" if prop == "C09" else "links"
        r = deep_probe(mode, n, k)
        stats["deep_chain_probes"] += 1
        res["notes"].append("deep-chain probe (%d sorted siblings, resume near the end): %s" % (n, r))
        if r == "ok":
            pass
        elif r == "RecursionError" or r.startswith("signal "):
            res["known"].append({"mechanism": "F8-recursive-inorder-walk", "detail": {"n": n, "result": r}, "case": "deep-chain"})
        elif r == "timeout":
            res["inconclusive"].append("deep-chain probe timed out")
        else:
            res["violations"].append({"discrepancy": D([prop], "deep-chain", n=n, result=r), "case": "deep-chain"})
    if other:
        res["notes"].append("discrepancies attributed to other properties (not judged here): %s" % dict(other))
    res["counters"] = dict(stats)
    res["monitors"] = dict(M.STATUS)
    res["reach"] = M.reach_for(spec.get("anchors", []))
    return res
