# History engine (DESIGN.md 3, "history engine"): random histories over the whole
# write API, applied to the real index and to the reference model in lockstep,
# with model = decoder = API audits.  Serves C01-C08, C13, C19, C20 (and C12).
import hashlib
import random
import time
from collections import Counter

from .. import monitors as M
from ..gen import make_pool, make_cfg, gen_history
from ..harness import Sut
from ..util import jdumps, stems, prefixes_of

SAVE_MAX = 4


def features(sut):
    m = sut.m
    owner = m.page_owner()
    f = {
        "pages": len(m.pages),
        "crawled": sum(m.pages.values()),
        "nodes": len(m.nodes),
        "links": sum(m.links.values()),
        "pairs": len(m.links),
        "multi": sum(1 for c in m.links.values() if c > 1),
        "self": sum(1 for (s, t) in m.links if s == t),
        "we": len(set(m.we.values())),
        "prefixes": len(m.we),
        "flags": len(m.flags),
        "long": sum(1 for n in m.nodes if len(stems(n)[-1]) > 74),
        "unresolved": sum(1 for p, (w, _) in owner.items() if w is None),
        "nested": sum(1 for p in m.we for q in prefixes_of(p)[:-1] if q in m.we),
        "auto_groups": sut.local.get("created_groups", 0),
        "reopens": sut.local.get("reopens", 0),
        "deletes": sut.opcount.get("delete", 0) + sut.opcount.get("rmp", 0),
    }
    return f


def build_case(rng, spec, tier):
    prof = spec["profile"]
    tp = spec[tier]
    classes = prof.get("classes", ("real",))
    enc = rng.choice(prof.get("encodings", ("utf-8",)))
    long_ok = prof.get("long", False)
    pool, text = make_pool(rng, n=rng.choice(prof.get("pool", (16, 24, 40))), classes=classes, encoding=enc, long_ok=long_ok)
    cfg = make_cfg(rng, pool, backends=prof.get("backends", ("file", "memory")), encodings=(enc,),
                   rule_prob=prof.get("rule_prob", 0.6))
    nops = rng.choice(tp.get("nops", (30, 60)))
    ops = gen_history(rng, cfg, pool, text, nops, weights=prof.get("weights"))
    return {
        "engine": "history",
        "cfg": cfg,
        "ops": ops,
        "audit_every": rng.choice(tp.get("audit_every", (5,))),
        "aseed": rng.getrandbits(32),
    }


SHAPE_LENGTHS = {"short": 3, "74": 74, "75": 75, "148": 148, "149": 149, "223": 223}


def shape_case(rng, perm, cls, backend):
    """Six sibling stems of one length class inserted in the order `perm`, below one
    prefix, then a second level below two of them: every sibling-BST shape of size
    <= 6 for stems whose difference sits in the first block / in the tail."""
    n = SHAPE_LENGTHS[cls]
    stems_ = []
    for i in range(len(perm)):
        body = b"p:" + b"m" * (n - 4) + bytes([0x41 + i]) + b"|" if n > 4 else b"p:" + bytes([0x41 + i]) + b"|"
        stems_.append(body)
    head = b"s:http|h:com|h:shape|"
    lrus = [head + stems_[i] for i in perm]
    second = [head + stems_[perm[0]] + stems_[j] for j in perm[::-1][:3]]
    ops = [{"op": "add_page", "lru": l, "crawled": bool(i % 2), "as_str": False} for i, l in enumerate(lrus + second)]
    ops.append({"op": "add_links", "links": [[lrus[0], lrus[-1]], [second[0], lrus[0]]], "as_str": False})
    ops.append({"op": "create", "prefixes": [head + stems_[perm[-1]]]})
    cfg = {"backend": backend, "default": "domain", "encoding": "utf-8", "overwrite": False, "rules": []}
    return {"engine": "history", "cfg": cfg, "ops": ops, "audit_every": len(ops), "aseed": rng.getrandbits(32), "shape": [cls, list(perm)]}


def soak_case(rng, n_pages):
    """One large history (scale-free accounting): n_pages pages from a wide grammar, link batches in between."""
    from ..gen import g_real
    pool = []
    seen = set()
    while len(pool) < n_pages:
        l = g_real(rng, long_ok=(rng.random() < 0.02), deep=rng.random() < 0.5) + b"p:%d|" % rng.randrange(n_pages)
        if l not in seen:
            seen.add(l)
            pool.append(l)
    ops = []
    for i in range(0, n_pages, 40):
        chunk = pool[i:i + 40]
        ops.append({"op": "add_pages", "lrus": chunk, "crawled": bool(rng.random() < 0.5), "as_str": False})
        if rng.random() < 0.5 and i:
            ops.append({"op": "add_links", "links": [[rng.choice(pool[:i + 40]), rng.choice(pool[:i + 40])] for _ in range(50)], "as_str": False})
    cfg = {"backend": rng.choice(["file", "memory"]), "default": "domain", "encoding": "utf-8", "overwrite": False, "rules": []}
    return {"engine": "history", "cfg": cfg, "ops": ops, "audit_every": len(ops), "aseed": rng.getrandbits(32), "soak": n_pages}


def sorted_chain_case(rng, n):
    """n sibling pages submitted in ascending (or descending) stem order: the sibling tree degenerates
    into a chain of n nodes, every insertion walks it (thresholds on walk lengths, depth, recursion)."""
    head = b"s:http|h:com|h:chain|"
    pages = [head + b"p:%05d|" % i for i in range(n)]
    if rng.random() < 0.5:
        pages.reverse()
    ops = [{"op": "add_pages", "lrus": pages[i:i + 50], "crawled": bool((i // 50) % 2), "as_str": False} for i in range(0, n, 50)]
    ops.append({"op": "add_page", "lru": pages[-1], "crawled": True, "as_str": False})  # a deep known page again
    ops.append({"op": "add_page", "lru": pages[n // 2], "crawled": False, "as_str": False})
    cfg = {"backend": rng.choice(["file", "memory"]), "default": "domain", "encoding": "utf-8", "overwrite": False, "rules": []}
    return {"engine": "history", "cfg": cfg, "ops": ops, "audit_every": len(ops), "aseed": rng.getrandbits(32), "sorted_chain": n}


def big_case(rng, n, name=b"big", merged_prefixes=1100):
    """Scale: one webentity with n pages (n > 2000, so the yield thresholds 1000 / 2000 / 5000 of the
    *_iter requests are crossed in their natural, non-forced mode), a hub with n-2 distinct inbound
    sources, a page with n-2 outbound links submitted as ONE crawl batch (larger than any yield
    frequency), > 5000 links inside the webentity, one pair submitted 300 times (weight beyond one
    byte), a nested webentity with a few hundred pages, a second site linked both ways, a reopen in
    the middle on file back-ends."""
    site = b"s:http|h:com|h:" + name + b"|"
    pages = [site + b"p:%04d|" % i for i in range(n)]
    rng.shuffle(pages)
    ops = []
    step = 700
    for i in range(0, n, step):
        ops.append({"op": "add_pages", "lrus": pages[i:i + step], "crawled": (i // step) % 2 == 0, "as_str": False})
    hub, fan, rest = pages[0], pages[1], pages[2:]
    ops.append({"op": "add_links", "links": [[p_, hub] for p_ in rest], "as_str": False})
    ops.append({"op": "batch", "data": [[fan, list(rest)]], "as_str": False, "yf": rng.choice([50, 1000, 3000])})
    cfg = {"backend": rng.choice(["file", "memory"]), "default": "domain", "encoding": "utf-8", "overwrite": False, "rules": []}
    if cfg["backend"] == "file":
        ops.append({"op": "reopen"})
    nested = site + b"p:0007|"
    sub = [nested + b"p:n%03d|" % i for i in range(260)]
    ops.append({"op": "add_pages", "lrus": sub, "crawled": False, "as_str": False})
    ops.append({"op": "create", "prefixes": [nested]})
    other = [b"s:https|h:org|h:other|p:%03d|" % i for i in range(120)]
    ops.append({"op": "add_links", "links": [[rng.choice(other), rng.choice(pages)] for _ in range(400)] + [[rng.choice(pages), rng.choice(other)] for _ in range(400)]
                + [[rng.choice(sub), rng.choice(pages)] for _ in range(300)], "as_str": False})
    ops.append({"op": "add_links", "links": [[pages[5], pages[6]]] * 300 + [[hub, hub]] * 3, "as_str": False})
    ops.append({"op": "add_links", "links": [[rng.choice(pages), rng.choice(pages)] for _ in range(1500)], "as_str": False})
    ops.append({"op": "add_page", "lru": hub, "crawled": True, "as_str": False})
    # one very deep LRU (1200 stems: recursion limits, per-stem work) linked both ways
    deep = site + b"p:d|" * 1200
    ops.append({"op": "add_links", "links": [[deep, hub], [fan, deep]], "as_str": False})
    # a rule installed over all these pages (its installer walks > 2000 pages: the default yield threshold is crossed);
    # the domain pattern proposes the prefix that already owns them, so no webentity is created
    ops.append({"op": "rule", "anchor": site, "rule": "domain"})
    # one explicit creation request with more than a thousand prefixes (a merge of many sites), pages below a few of them
    if merged_prefixes:
        merged = [b"s:http|h:net|h:m%04d|" % i for i in range(merged_prefixes)]
        ops.append({"op": "create", "prefixes": merged})
        ops.append({"op": "add_pages", "lrus": [rng.choice(merged) + b"p:%d|" % i for i in range(40)], "crawled": True, "as_str": False})
    return {"engine": "history", "cfg": cfg, "ops": ops, "audit_every": len(ops), "aseed": rng.getrandbits(32), "big": n,
            "probes": [hub, fan, pages[5], pages[6], nested, site, deep]}


def rulebig_case(rng, n):
    """A rule installed over n (> 1000) pages each of which needs its own webentity (one page per section, the
    rule proposes the section): every page the installer fails to re-evaluate is a webentity missing from the report."""
    site = b"s:http|h:com|h:sections|"
    pages = [site + b"p:s%04d|p:x|" % i for i in range(n)]
    rng.shuffle(pages)
    ops = [{"op": "add_pages", "lrus": pages[i:i + 400], "crawled": bool((i // 400) % 2), "as_str": False} for i in range(0, n, 400)]
    ops.append({"op": "rule", "anchor": site, "rule": "path1"})
    ops.append({"op": "add_page", "lru": site + b"p:s0003|p:y|", "crawled": False, "as_str": False})
    cfg = {"backend": rng.choice(["file", "memory"]), "default": "domain", "encoding": "utf-8", "overwrite": False, "rules": []}
    return {"engine": "history", "cfg": cfg, "ops": ops, "audit_every": len(ops), "aseed": rng.getrandbits(32), "rulebig": n}


def ids_case(rng, n):
    """n (> 65536) webentities created one request each, then ordinary requests on top: ids beyond two
    bytes, a trie of > 200 000 blocks (file offsets beyond 2**24)."""
    mod = 100003 if n < 100003 else 1000003
    sites = [b"s:http|h:com|h:w%06d|" % (i * 7919 % mod) for i in range(n)]
    ops = [{"op": "create_many", "prefixes": sites}]
    last, first, mid = sites[-1], sites[0], sites[n // 2]
    ops.append({"op": "add_pages", "lrus": [last + b"p:a|", last + b"p:b|p:c|", first + b"p:a|", mid + b"p:x|", b"s:https|h:org|h:new|p:z|"], "crawled": True, "as_str": False})
    ops.append({"op": "create", "prefixes": [last + b"p:b|"]})
    ops.append({"op": "add_links", "links": [[last + b"p:a|", first + b"p:a|"], [mid + b"p:x|", last + b"p:b|p:c|"], [b"s:https|h:org|h:new|p:z|", last + b"p:a|"]], "as_str": False})
    ops.append({"op": "delete", "of": mid, "prefixes": [mid]})
    cfg = {"backend": rng.choice(["file", "memory"]), "default": "domain", "encoding": "utf-8", "overwrite": False, "rules": []}
    if cfg["backend"] == "file":
        ops.append({"op": "reopen"})
    ops.append({"op": "add_page", "lru": b"s:http|h:fr|h:apres|p:1|", "crawled": False, "as_str": False})
    ops.append({"op": "create", "prefixes": [mid]})
    return {"engine": "history", "cfg": cfg, "ops": ops, "audit_every": len(ops), "aseed": rng.getrandbits(32), "ids": n}


def wide_case(rng, n_sites):
    """Many webentities in one index (ids well past 256, CPython's small-integer cache and any
    one-byte assumption): n_sites sites, each with an http and an https page linking to each other
    (same webentity through two different prefixes), cross links, a few nested webentities."""
    ops = []
    sites = []
    for i in range(n_sites):
        host = b"h:com|h:s%d|" % i
        a = b"s:http|" + host + b"p:a|"
        b = b"s:https|" + host + b"p:b|"
        sites.append((a, b))
        links = [[a, b], [b, a]]
        if i:
            j = rng.randrange(i)
            links.append([a, sites[j][rng.randrange(2)]])
        ops.append({"op": "add_links", "links": links, "as_str": False})
        if i % 37 == 5:
            ops.append({"op": "create", "prefixes": [b"s:http|" + host + b"p:a|"]})
        if i % 41 == 7:
            ops.append({"op": "delete", "of": b"s:http|h:com|h:s%d|" % (i - 1), "prefixes": [b"s:http|h:com|h:s%d|" % (i - 1), b"s:https|h:com|h:s%d|" % (i - 1)]})
    cfg = {"backend": rng.choice(["file", "memory"]), "default": "domain", "encoding": "utf-8", "overwrite": False, "rules": []}
    return {"engine": "history", "cfg": cfg, "ops": ops, "audit_every": len(ops), "aseed": rng.getrandbits(32), "wide": n_sites}


def run_case(prop, case, spec, scratch, stats):
    """Returns (discrepancies, features, digest)."""
    props = set(spec.get("audits", [prop]))
    sut = Sut(case["cfg"], scratch, stats)
    rng = random.Random(case["aseed"])
    ds = []
    feats = {}
    try:
        M.m2_take()
        every = case.get("audit_every", 5)
        ops = case["ops"]
        for i, op in enumerate(ops):
            # (looking at the sizes flushes the files: not before a clear / reopen, see below)
            lens_before = sut.store_lengths() if "C19" in props and op["op"] not in ("clear", "reopen") else (0, 0)
            new = sut.apply(op)
            for d in new:
                d["at_op"] = i
            ds += new
            if sut.dead:
                if "C19" in props and op["op"] not in ("reopen", "clear", "overwrite_open") and not any("exception" in d["kind"] for d in new):
                    # the request diverged from the model on its report; its storage is still accounted for:
                    # blocks beyond what the model's stem-prefixes need are blocks no request asked for
                    try:
                        tl, ll = sut.store_lengths()
                        et = sut.m.trie_blocks() * 128
                        stats["C19_sizes_at_divergence"] += 1
                        if tl > et:
                            ds.append({"props": ["C19"], "kind": "store-grew-beyond-what-the-requests-account-for", "at_op": i,
                                       "detail": {"op": op["op"], "trie_blocks": tl // 128, "accounted_for": et // 128, "diverged_on": [d["kind"] for d in new][:2]}})
                    except Exception:
                        pass
                break
            ev = M.m2_take()
            forced = False
            if ev:
                stats["m2_suspicious_events"] += len(ev)
                forced = True
            nxt = ops[i + 1]["op"] if i + 1 < len(ops) else None
            if nxt in ("clear", "reopen") and not forced and rng.random() < 0.7:
                # do not look at the index between a write and a clear / close: a monitor that
                # reads (or flushes) here would hide defects that need pending buffered writes
                stats["unobserved_write_then_%s" % nxt] += 1
                continue
            if "C19" in props and op["op"] not in ("reopen", "clear"):
                tl, ll = sut.store_lengths()
                stats["C19_per_op_sizes"] += 1
                et = sut.m.trie_blocks(sut.stored_lrus() if sut.m.optional else None) * 128
                el = (1 + 2 * sum(sut.m.links.values())) * 16
                if (tl, ll) != (et, el):
                    ds.append({"props": ["C19"], "kind": "store-growth", "at_op": i,
                               "detail": {"op": op["op"], "trie_blocks": tl / 128.0, "expected_trie_blocks": et // 128,
                                          "link_blocks": ll / 16.0, "expected_link_blocks": el // 16,
                                          "grew_by": (tl - lens_before[0]) // 128}})
                    forced = True
            if forced or (i + 1) % every == 0 or i == len(ops) - 1:
                new = sut.audit(rng, props)
                for d in new:
                    d["at_op"] = i
                    if ev:
                        d["m2_events"] = [list(map(repr, e)) for e in ev[:3]]
                ds += new
                if any(prop in d["props"] and not d["kind"].startswith("KNOWN:") for d in new):
                    break
        feats = features(sut)
        try:
            a, b = M.store_bytes(sut.t)
            digest = hashlib.sha256(a + b"/" + b).hexdigest()[:16]
        except Exception:
            digest = hashlib.sha256(jdumps(case["ops"]).encode()).hexdigest()[:16]
    finally:
        sut.close()
    return ds, feats, digest


def replay(prop, case):
    from .. import props as P

    spec = P.PROPS[prop]
    M.install_m1()
    M.install_mem_write_counter()
    M.install_m2()
    stats = Counter()
    ds, feats, digest = run_case(prop, case, spec, None, stats)
    return ds


def minimize(prop, case, spec, scratch, kind, budget=25):
    """ddmin over the operation list, bounded by wall time."""
    t0 = time.time()

    def fails(ops):
        c = dict(case)
        c["ops"] = ops
        c["audit_every"] = 1 if len(ops) <= 12 else case.get("audit_every", 5)
        try:
            ds, _, _ = run_case(prop, c, spec, scratch, Counter())
        except Exception:
            return False
        return any(prop in d["props"] and d["kind"] == kind for d in ds)

    ops = list(case["ops"])
    n = 2
    while len(ops) >= 2 and time.time() - t0 < budget:
        chunk = max(1, len(ops) // n)
        reduced = False
        for i in range(0, len(ops), chunk):
            cand = ops[:i] + ops[i + chunk:]
            if cand and fails(cand):
                ops = cand
                n = max(n - 1, 2)
                reduced = True
                break
            if time.time() - t0 > budget:
                break
        if not reduced:
            if chunk == 1:
                break
            n = min(len(ops), n * 2)
    c = dict(case)
    c["ops"] = ops
    c["audit_every"] = 1 if len(ops) <= 12 else case.get("audit_every", 5)
    c["minimized_from"] = len(case["ops"])
    return c


def run_shard(prop, spec, tier, seed, shard, nshards, scratch):
    from ..shard import save_case

    M.install_m1()
    M.install_mem_write_counter()
    M.install_m2()
    M.install_m6()
    tp = spec[tier]
    total = tp["cases"]
    mine = [i for i in range(total) if i % nshards == shard]
    deadline = time.time() + tp.get("time_cap", 600)
    stats = Counter()
    res = {"cases": 0, "violations": [], "known": [], "samples": [], "nontrivial": [], "notes": [], "inconclusive": []}
    nontrivial = spec["nontrivial"]
    saved = 0
    other = Counter()
    import itertools

    extra = []
    if tp.get("exhaustive_shapes"):
        j = 0
        for cls in SHAPE_LENGTHS:
            for n in range(2, tp["exhaustive_shapes"] + 1):
                for perm in itertools.permutations(range(n)):
                    if j % nshards == shard:
                        extra.append(("shape", cls, perm))
                    j += 1
        res["exhaustive"] = True
    if tp.get("soak") and shard == 0:
        extra.append(("soak", tp["soak"], None))
    if tp.get("wide") and shard == nshards - 1:
        extra.append(("wide", tp["wide"], None))
    if tp.get("sorted_chain") and shard == max(0, nshards - 2):
        extra.append(("sorted_chain", tp["sorted_chain"], None))
    if tp.get("big") and shard == max(0, nshards - 3):
        extra.append(("big", tp["big"], None))
    if tp.get("ids") and shard == max(0, nshards - 4):
        extra.append(("ids", tp["ids"], None))
    if tp.get("rulebig") and shard == max(0, nshards - 5):
        extra.append(("rulebig", tp["rulebig"], None))
    for kind, a1, a2 in extra:
        if time.time() > deadline:
            if kind == "shape":
                res["exhaustive"] = False
            res["notes"].append("shard %d hit the time cap inside the enumerated cases" % shard)
            break
        rng = random.Random("%s/%s/%s/%s/%s" % (seed, prop, kind, a1, a2))
        if kind == "shape":
            case = shape_case(rng, list(a2), a1, "file" if (len(a2) + a2[0]) % 2 else "memory")
            stats["exhaustive_shape_cases"] += 1
        elif kind == "wide":
            case = wide_case(rng, a1)
            stats["wide_cases_many_webentities"] += 1
        elif kind == "sorted_chain":
            case = sorted_chain_case(rng, a1)
            stats["sorted_chain_cases"] += 1
        elif kind == "big":
            case = big_case(rng, a1)
            stats["big_cases_past_the_yield_thresholds"] += 1
        elif kind == "ids":
            case = ids_case(rng, a1)
            stats["cases_with_ids_past_65536"] += 1
        elif kind == "rulebig":
            case = rulebig_case(rng, a1)
            stats["cases_with_a_rule_over_1000_pages_needing_webentities"] += 1
        else:
            case = soak_case(rng, a1)
            stats["soak_cases"] += 1
        case["id"] = "%s/%s/%s" % (kind, a1, "".join(map(str, a2 or ())))
        ds, feats, digest = run_case(prop, case, spec, scratch, stats)
        res["cases"] += 1
        if kind in ("soak", "wide", "sorted_chain", "big", "ids", "rulebig"):
            res["notes"].append("%s case: %s" % (kind, feats))
        if feats and nontrivial(feats):
            res["nontrivial"].append(digest)
        for d in ds:
            if prop not in d["props"] or d["kind"].startswith("KNOWN:"):
                continue
            entry = {"discrepancy": d, "case": case["id"]}
            if saved < SAVE_MAX:
                saved += 1
                case["violation"] = d
                entry["case_file"] = save_case(prop, seed, shard, case["id"].replace("/", "_"), case)
            res["violations"].append(entry)
            break
    for idx in mine:
        if time.time() > deadline:
            res["notes"].append("shard %d stopped at time cap after %d cases" % (shard, res["cases"]))
            break
        rng = random.Random("%s/%s/%s/%s" % (seed, prop, tier, idx))
        case = build_case(rng, spec, tier)
        case["id"] = "%s/%s/%s/%s" % (seed, prop, tier, idx)
        ds, feats, digest = run_case(prop, case, spec, scratch, stats)
        res["cases"] += 1
        if feats and nontrivial(feats):
            res["nontrivial"].append(digest)
        if len(res["samples"]) < 2 and feats.get("pages", 0) > 3:
            res["samples"].append({"cfg": case["cfg"], "first_ops": case["ops"][:6], "n_ops": len(case["ops"]), "final_state": feats})
        for d in ds:
            if prop not in d["props"]:
                other[d["kind"]] += 1
                continue
            if d["kind"].startswith("KNOWN:"):
                res["known"].append({"mechanism": d["kind"][6:], "detail": d["detail"], "case": case["id"]})
                continue
            entry = {"discrepancy": d, "case": case["id"]}
            if saved < SAVE_MAX:
                saved += 1
                small = case
                case["violation"] = d
                save_case(prop, seed, shard, idx, case)  # as witnessed, before the (bounded) minimisation
                try:
                    small = minimize(prop, case, spec, scratch, d["kind"])
                except Exception as e:
                    res["notes"].append("minimisation failed: %r" % e)
                small["violation"] = d
                entry["case_file"] = save_case(prop, seed, shard, idx, small)
            res["violations"].append(entry)
            break
    if other:
        res["notes"].append("discrepancies attributed to other properties (not judged here): %s" % dict(other))
    res["counters"] = dict(stats)
    res["monitors"] = dict(M.STATUS)
    res["reach"] = M.reach_for(spec.get("anchors", []))
    # keep known list small
    kn = res["known"]
    res["known"] = kn[:3] + [{"mechanism": k["mechanism"]} for k in kn[3:]]
    return res
