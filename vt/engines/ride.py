# Monitors riding on the repository's own tests (thorough tiers): the working
# tree is copied to a scratch directory outside /repo and /verif (the suite
# writes its indexes under test/temp), pytest runs there with vt.pytest_plugin,
# the copy is removed.
import json
import os
import shutil
import subprocess
import sys
import tempfile

from ..util import VERIF, REPO

RIDE_PROPS = {"C01", "C02", "C03", "C04", "C05", "C07", "C08", "C13", "C14", "C19", "C20"}


def ride(prop, timeout=900):
    """Returns dict(stats, violations, counts, exitstatus) or {'error': ...}."""
    tmp = tempfile.mkdtemp(prefix="vt-ride-")
    try:
        copy = os.path.join(tmp, "repo")
        shutil.copytree(REPO, copy, ignore=shutil.ignore_patterns(".git", "__pycache__", "*.pyc", ".benchmarks"))
        out = os.path.join(tmp, "out.json")
        env = dict(os.environ, VT_RIDE_OUT=out, VT_RIDE_PROPS=prop if prop != "C14" else "none", PYTHONPATH=VERIF, REPO=copy,
                   PYTHONDONTWRITEBYTECODE="1", PYTHONHASHSEED="0")
        p = subprocess.run([sys.executable, "-m", "pytest", "-q", "-p", "no:cacheprovider", "-p", "vt.pytest_plugin"], cwd=copy, env=env,
                           capture_output=True, text=True, timeout=timeout)
        if not os.path.exists(out):
            return {"error": "ride produced no result: rc=%s %s" % (p.returncode, (p.stdout + p.stderr)[-400:])}
        with open(out) as f:
            r = json.load(f)
        r["pytest_rc"] = p.returncode
        return r
    except subprocess.TimeoutExpired:
        return {"error": "ride timed out"}
    finally:
        shutil.rmtree(tmp, ignore_errors=True)


def replay(prop, case):
    r = ride(prop)
    if "error" in r:
        return [{"props": ["HARNESS"], "kind": r["error"], "detail": {}}]
    return r["violations"]
