# Read-only engine (C14): the whole battery (every read-only public method,
# iterator forms drained step by step, failing calls included) executed inside
# a read-only window monitor (M4): no write event at the storage boundary and
# unchanged SHA-256 of both stores around every call.
import hashlib
import os
import random
import time
import traceback
from collections import Counter

from .. import battery as B
from .. import monitors as M
from ..gen import make_pool, make_cfg, gen_history, neighbours
from ..harness import Sut, D
from .history import features
from .lifecycle import probes_for


def build_case(rng, spec, tier):
    prof = spec["profile"]
    tp = spec[tier]
    pool, text = make_pool(rng, n=rng.choice(prof.get("pool", (12, 24))), classes=prof.get("classes", ("real",)), long_ok=True)
    cfg = make_cfg(rng, pool, rule_prob=0.6)
    ops = gen_history(rng, cfg, pool, text, rng.choice(tp.get("nops", (20, 40))), weights=prof.get("weights"))
    if rng.random() < 0.2:
        cfg["backend"] = "file"
        w = dict(prof.get("weights") or {})
        w.update({"reopen": 0, "clear": 0, "overwrite_open": 0, "bystander": 0})
        ops = gen_history(rng, cfg, pool, text, rng.choice((5, 10, 16)), weights=w)
        return {"engine": "readonly", "cfg": cfg, "ops": ops, "aseed": rng.getrandbits(32), "points": [], "torn": True}
    return {"engine": "readonly", "cfg": cfg, "ops": ops, "aseed": rng.getrandbits(32), "points": sorted({rng.randrange(len(ops) + 1) for _ in range(tp.get("points", 2))} | {len(ops)})}


def scale_case(rng, kind, n):
    """'big': the scale history of the history engine (thousands of pages and links in one webentity);
    'hub': one page whose inbound chain holds more than 65536 entries (70 repeats of 1000 sources in
    one request: a 16-bit counter, a chain-length guard) and whose outbound chain holds 66000 more."""
    if kind == "big":
        from .history import big_case

        h = big_case(rng, n, merged_prefixes=0)
        ops = [o for o in h["ops"] if o["op"] != "reopen"]
        return {"engine": "readonly", "cfg": h["cfg"], "ops": ops, "aseed": rng.getrandbits(32), "points": [len(ops)], "probes": h["probes"], "scale": kind}
    site = b"s:http|h:com|h:hub|"
    hub = site + b"p:hub|"
    srcs = [site + b"p:s%04d|" % i for i in range(1000)]
    ops = [{"op": "add_pages", "lrus": [hub] + srcs, "crawled": True, "as_str": False},
           {"op": "add_links", "links": [[s_, hub] for s_ in srcs] * 66, "as_str": False},
           {"op": "add_links", "links": [[hub, s_] for s_ in srcs[:300]] * 220, "as_str": False}]
    cfg = {"backend": rng.choice(["file", "memory"]), "default": "domain", "encoding": "utf-8", "overwrite": False, "rules": []}
    return {"engine": "readonly", "cfg": cfg, "ops": ops, "aseed": rng.getrandbits(32), "points": [len(ops)], "probes": [hub, srcs[0], site], "scale": kind}


def monitored_battery(sut, rng, stats, out, t=None, probes=None, lite=False):
    t = t or sut.t
    if probes is None:
        probes = probes_for(sut, rng)
    probes = list(probes) + [b"s:http|h:zz|h:absent|p:q|", b"x|", b"s:http|"]

    def around(name, thunk):
        w0 = M.WRITES[0]
        d0 = M.store_digest(t)
        steps = [0]
        seen_w = [w0]

        def hook():
            steps[0] += 1
            stats["C14_iterator_steps"] += 1
            if M.WRITES[0] != seen_w[0]:
                seen_w[0] = M.WRITES[0]
                if M.store_digest(t) != d0:
                    raise B.MonitorAlarm("store bytes changed during iterator step %d of %s" % (steps[0], name))

        try:
            return thunk(hook)
        finally:
            stats["C14_windows"] += 1
            w1 = M.WRITES[0]
            d1 = M.store_digest(t)
            if d1 != d0:
                out.append(D(["C14"], "store-bytes-changed-by-read-only-request", call=name, write_events=w1 - w0))
            elif w1 != w0:
                # write events that leave every byte as it was (an idempotent rewrite): "changes a single byte" is not met
                stats["note_write_events_without_byte_change_in_read_only_requests"] += w1 - w0

    foreign = []
    W0 = M.WRITES[0]
    D0 = M.store_digest(t)
    n_alarms = len(out)
    try:
        ans, (n_ok, n_ref, n_exc) = B.run(t, probes, around=around, foreign=foreign, lite=lite)
    except B.MonitorAlarm as e:
        out.append(D(["C14"], "store-bytes-changed-by-read-only-request", msg=str(e)))
        return
    finally:
        # the battery itself enumerates pages and prefixes to choose its arguments (pages_iter,
        # webentity_prefix_iter): those reads are inside this outer window
        if len(out) == n_alarms and M.store_digest(t) != D0:
            out.append(D(["C14"], "write-event-in-read-only-request", call="pages_iter / webentity_prefix_iter (enumeration that opens the battery)",
                         events=M.WRITES[0] - W0))
    stats["C14_calls_succeeded"] += n_ok
    stats["C14_calls_refused_with_library_error"] += n_ref
    stats["C14_calls_foreign_exception"] += n_exc
    for f in foreign[:3]:
        stats["foreign:" + f[1]] += 1
    return foreign


def torn_states(prop, case, scratch, stats, out):
    """Read-only requests on indexes left by an interrupted write: the history is recorded at the file
    boundary, cut at a few block-granular points (in particular between a node and its tail blocks),
    the folder reopened, and the reduced battery run inside the read-only window monitor."""
    import builtins
    import os
    import shutil
    import tempfile
    from . import crashcut as CC
    from ..gen import RX
    from ..harness import Traph, TraphException

    rng = random.Random(case["aseed"] + 1)
    log, facts, rules, disk, feats, _ = CC.record(case, scratch, stats)
    if facts is None:
        return
    allcuts = list(CC.cuts(log, 0, rng))
    rng.shuffle(allcuts)
    folder = tempfile.mkdtemp(prefix="vtro", dir=scratch)
    try:
        for label, files in allcuts[:8]:
            for n in CC.NAMES:
                pth = os.path.join(folder, n)
                if files[n] is None:
                    if os.path.exists(pth):
                        os.remove(pth)
                else:
                    with M.ORIG_OPEN(pth, "wb") as f:
                        f.write(files[n])
            try:
                t = Traph(folder=folder, default_webentity_creation_rule=RX[case["cfg"]["default"]], webentity_creation_rules=dict(rules))
            except TraphException:
                continue
            except Exception:
                continue
            try:
                stats["C14_batteries_on_torn_states"] += 1
                monitored_battery(None, rng, stats, out, t=t, probes=sorted(facts[-1][1]["pages"])[:4], lite=True)
            finally:
                t.close()
            if out:
                out[-1]["detail"]["torn_state_cut"] = label
                return
    finally:
        shutil.rmtree(folder, ignore_errors=True)


def run_case(prop, case, spec, scratch, stats):
    if case.get("torn"):
        out = []
        try:
            torn_states(prop, case, scratch, stats, out)
        except Exception as e:
            out.append(D(["HARNESS"], "torn-state-harness-exception", exc=repr(e), tb=traceback.format_exc()[-500:]))
        return out, {"pages": 6, "we": 1, "links": 1, "torn": True}, "torn" + hashlib.sha256(repr(case["ops"]).encode("latin-1", "replace")).hexdigest()[:12]
    sut = Sut(case["cfg"], scratch, stats)
    rng = random.Random(case["aseed"])
    out = []
    feats = {}
    digest = ""
    try:
        pts = set(case["points"])
        for i in range(len(case["ops"]) + 1):
            if i in pts:
                if case.get("scale"):
                    stats["C14_batteries_on_scale_states"] += 1
                    monitored_battery(sut, rng, stats, out, probes=list(case["probes"]) + probes_for(sut, rng)[:3], lite="scale")
                    break
                monitored_battery(sut, rng, stats, out)
                if out:
                    break
                if i == len(case["ops"]) and case["cfg"]["backend"] == "file" and sut.m.flags and rng.random() < 0.6:
                    # the same state reopened with only part of its rules re-supplied (API misuse, but a
                    # reachable state): queries may fail, they still must not write
                    sut.t.close()
                    keep = [a for a in sorted(sut.m.flags) if rng.random() < 0.5]
                    from ..harness import Traph
                    sut.t = Traph(folder=sut.folder, default_webentity_creation_rule=sut.m.default_pattern,
                                  webentity_creation_rules={a: sut.m.rules[a].pattern for a in keep})
                    stats["C14_batteries_after_reopen_with_fewer_rules"] += 1
                    monitored_battery(sut, rng, stats, out)
                    if out:
                        break
                elif i == len(case["ops"]) and case["cfg"]["backend"] == "file" and rng.random() < 0.5:
                    # the way the repository's own inspection scripts open a folder (scripts/debug.py,
                    # print_metrics.py): debug=True and no rules at all.  Requests that need the rules
                    # may fail there; opening and querying still must not change a byte.
                    sut.t.close()
                    from ..harness import Traph
                    before = [M.ORIG_OPEN(os.path.join(sut.folder, n), "rb").read() for n in ("lru_trie.dat", "link_store.dat")]
                    sut.t = Traph(folder=sut.folder, debug=True)
                    stats["C14_batteries_after_debug_mode_open"] += 1
                    monitored_battery(sut, rng, stats, out)
                    sut.t.close()
                    after = [M.ORIG_OPEN(os.path.join(sut.folder, n), "rb").read() for n in ("lru_trie.dat", "link_store.dat")]
                    if not out and before != after:
                        out.append(D(["C14"], "files-changed-by-debug-mode-open-and-queries", sizes=[len(x) for x in before + after]))
                    sut.t = Traph(folder=sut.folder, default_webentity_creation_rule=sut.m.default_pattern,
                                  webentity_creation_rules={a: sut.m.rules[a].pattern for a in sut.m.flags})
                    if out:
                        break
            if i == len(case["ops"]):
                break
            sut.apply(case["ops"][i])
            if sut.dead:
                break
        feats = features(sut)
        a, b = M.store_bytes(sut.t)
        digest = hashlib.sha256(a + b"/" + b).hexdigest()[:16]
    except Exception as e:
        out.append(D([prop], "harness-exception", exc=type(e).__name__, msg=str(e)[:200], tb=traceback.format_exc()[-700:]))
    finally:
        sut.close()
    return out, feats, digest


def replay(prop, case):
    from .. import props as P

    M.install_m1()
    M.install_mem_write_counter()
    ds, _, _ = run_case(prop, case, P.PROPS[prop], None, Counter())
    return ds


def run_shard(prop, spec, tier, seed, shard, nshards, scratch):
    from ..shard import save_case

    M.install_m1()
    M.install_mem_write_counter()
    M.install_m6()
    tp = spec[tier]
    stats = Counter()
    res = {"cases": 0, "violations": [], "known": [], "samples": [], "nontrivial": [], "notes": [], "inconclusive": []}
    un = B.unclassified_public_methods()
    if un:
        # new API: reported, not judged (the battery cannot know whether it is meant to write)
        res["notes"].append("public Traph methods neither in the read-only nor in the writer list (not exercised by the battery): %s" % un)
    deadline = time.time() + tp.get("time_cap", 600)
    saved = 0
    todo = [("gen", idx) for idx in range(tp["cases"]) if idx % nshards == shard]
    for j, kind in enumerate(("big", "hub")):
        if tp.get("scale") and (nshards - 1 - j) % nshards == shard:
            todo.insert(0, (kind, tp["scale"]))
    for kind, idx in todo:
        if time.time() > deadline:
            res["notes"].append("shard %d stopped at time cap after %d cases" % (shard, res["cases"]))
            break
        if kind != "gen":
            rng = random.Random("%s/%s/scale/%s" % (seed, prop, kind))
            case = scale_case(rng, kind, idx)
            case["id"] = "scale/%s" % kind
            idx = "scale_" + kind
        else:
            rng = random.Random("%s/%s/%s/%s" % (seed, prop, tier, idx))
            case = build_case(rng, spec, tier)
            case["id"] = "%s/%s/%s/%s" % (seed, prop, tier, idx)
        ds, feats, digest = run_case(prop, case, spec, scratch, stats)
        res["cases"] += 1
        if feats and spec["nontrivial"](feats):
            res["nontrivial"].append(digest)
        if len(res["samples"]) < 2 and feats.get("pages", 0) > 3:
            res["samples"].append({"cfg": case["cfg"], "battery_at": case["points"], "first_ops": case["ops"][:4], "n_ops": len(case["ops"]), "final_state": feats})
        for d in ds:
            if prop not in d["props"]:
                continue
            entry = {"discrepancy": d, "case": case["id"]}
            if saved < 4:
                saved += 1
                c = dict(case)
                c["violation"] = d
                entry["case_file"] = save_case(prop, seed, shard, idx, c)
            res["violations"].append(entry)
            break
    res["counters"] = dict(stats)
    res["monitors"] = dict(M.STATUS)
    res["reach"] = M.reach_for(spec.get("anchors", []))
    return res
