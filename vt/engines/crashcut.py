# Crash-cut engine (C18): record the program-ordered write log of a history at
# the file boundary (M1), then for every cut of that log (block granular, and
# byte granular inside appends) rebuild both files, reopen, and require either
# the library's own refusal or an index that answers the whole battery without
# failure and reports only pages / links of the complete history.
import builtins
import hashlib
import os
import random
import shutil
import tempfile
import time
import traceback
from collections import Counter

from .. import battery as B
from .. import monitors as M
from ..gen import make_pool, make_cfg, gen_history, RX
from ..harness import Sut, D
from ..util import import_traph
from .history import features

import_traph()
from traph import Traph, TraphException  # noqa: E402

NAMES = ("lru_trie.dat", "link_store.dat")


def build_case(rng, spec, tier):
    prof = spec["profile"]
    tp = spec[tier]
    pool, text = make_pool(rng, n=rng.choice(prof.get("pool", (8, 14))), classes=prof.get("classes", ("real", "long")), long_ok=True)
    cfg = make_cfg(rng, pool, backends=("file",), rule_prob=0.5, max_rules=2)
    w = dict(prof.get("weights", {}))
    w["reopen"] = 0.5
    w["clear"] = 0.7
    w["bystander"] = 0  # the write log is keyed by file name: one index per recorded history
    ops = gen_history(rng, cfg, pool, text, rng.choice(tp.get("nops", (5, 12, 20))), weights=w)
    return {"engine": "crashcut", "cfg": cfg, "ops": ops, "aseed": rng.getrandbits(32)}


def scale_case(rng, n):
    """Scale: one crawl batch in which one source page has n (> 1024) targets, most of them new pages
    directly below or beside the source in the trie, and one page is cited by n sources.  Thousands of
    write events: every shard examines its own random sample of the cuts."""
    site = b"s:http|h:com|h:cut|"
    hub = site + b"p:index|"
    tgts = [site + b"p:page%04d|" % i for i in range(n // 2)] + [hub + b"p:sub%04d|" % i for i in range(n - n // 2)]
    rng.shuffle(tgts)
    srcs = [site + b"p:from%04d|" % i for i in range(n)]
    rng.shuffle(srcs)  # (submitted in sorted order the siblings would form one long chain: another scale, covered elsewhere)
    ops = [{"op": "add_pages", "lrus": [hub, site + b"p:a|"], "crawled": False, "as_str": False},
           {"op": "batch", "data": [[hub, list(tgts)]], "as_str": False},
           {"op": "batch", "data": [[s_, [hub]] for s_ in srcs], "as_str": False},
           {"op": "add_links", "links": [[site + b"p:a|", hub], [hub, tgts[0]]], "as_str": False}]
    cfg = {"backend": "file", "default": "domain", "encoding": "utf-8", "overwrite": False, "rules": []}
    return {"engine": "crashcut", "cfg": cfg, "ops": ops, "aseed": rng.getrandbits(32), "scale": n}


def record(case, scratch, stats, fail_at=None):
    """Run the history with the M1 log on.  Returns (log, final facts, sut rules, folder bytes)."""
    del M.LOG[:]
    M.LOG_ON[0] = True
    M.FAIL_AT[0] = fail_at
    sut = None
    crashed = False
    try:
        w0 = M.WRITES[0]
        sut = Sut(case["cfg"], scratch, Counter())
        record.ctor_writes = M.WRITES[0] - w0
        rules = {a: RX[r] for a, r in case["cfg"]["rules"]}
        facts = None
        if fail_at is None:
            facts = [(len(M.LOG), final_facts(sut.t))]
        for op in case["ops"]:
            if op["op"] == "rule":
                rules[op["anchor"]] = RX[op["rule"]]
            if op["op"] in ("clear", "overwrite_open") and op.get("rules") is not None:
                for a, r in op["rules"]:
                    rules[a] = RX[r]
            sut.apply(op)
            if sut.dead:
                break
            if fail_at is None:
                # what the history completed up to and including this request reports
                M.LOG_ON[0] = False
                try:
                    facts.append((len(M.LOG), final_facts(sut.t), op["op"]))
                finally:
                    M.LOG_ON[0] = True
        if fail_at is None:
            feats = features(sut)
        else:
            feats = {}
    except M.CrashInjected:
        crashed = True
        facts = None
        feats = {}
        rules = {}
    finally:
        M.FAIL_AT[0] = None
        M.LOG_ON[0] = False
    log = list(M.LOG)
    del M.LOG[:]
    disk = None
    if sut is not None:
        try:
            sut.t.close()
        except BaseException:
            pass
        disk = []
        for n in NAMES:
            p = os.path.join(sut.folder, n)
            disk.append(M.ORIG_OPEN(p, "rb").read() if os.path.exists(p) else None)
        sut.close()
    return log, facts, rules, disk, feats, crashed


def final_facts(t):
    pages = {l: bool(n.is_crawled()) for n, l in t.pages_iter()}
    outw = {}
    inw = {}
    for p in pages:
        for s, x, w in t.get_page_links(p, include_inbound=False):
            outw[(s, x)] = w
        for s, x, w in t.get_page_links(p, include_internal=False, include_outbound=False):
            inw[(s, x)] = w
        for s, x, w in t.get_page_links(p, include_inbound=False, include_outbound=False):
            inw[(s, x)] = w  # a self link sits in both lists
    return {"pages": pages, "out": outw, "in": inw}


def _union_pages(a, b):
    pages = dict(a["pages"])
    for l, c in b["pages"].items():
        pages[l] = pages.get(l, False) or c
    return pages


def _union_w(a, b):
    out = dict(a)
    for k2, v in b.items():
        out[k2] = max(out.get(k2, 0), v)
    return out


def _cap(w, final):
    return {k2: min(v, final.get(k2, 0)) for k2, v in w.items() if final.get(k2, 0) > 0}


def _cap_pages(pages, final):
    return {l: (c and final[l]) for l, c in pages.items() if l in final}


def allowed_facts(facts, pos):
    """Union of what the history reports before and after the request that log
    event number `pos` belongs to (pages; per-direction link weights)."""
    i = 0
    while i + 1 < len(facts) and facts[i + 1][0] <= pos:
        i += 1
    before = facts[i][1]
    after = facts[min(i + 1, len(facts) - 1)][1]
    # pages and links only ever grow except through clear / overwrite: when no such request follows the
    # interrupted one, the cut must also stay within what the WHOLE completed history reports
    later_wipes = any(len(f) > 2 and f[2] in ("clear", "overwrite_open") for f in facts[i + 2:])
    if not later_wipes:
        final = facts[-1][1]
        fpages = final["pages"]
        return {"pages": {l: c for l, c in _union_pages(before, after).items() if l in fpages} if False else _cap_pages(_union_pages(before, after), fpages),
                "out": _cap(_union_w(before["out"], after["out"]), final["out"]),
                "in": _cap(_union_w(before["in"], after["in"]), final["in"]), "capped_by_final": True}
    pages = dict(before["pages"])
    for l, c in after["pages"].items():
        pages[l] = pages.get(l, False) or c
    out = dict(before["out"])
    for k2, v in after["out"].items():
        out[k2] = max(out.get(k2, 0), v)
    inn = dict(before["in"])
    for k2, v in after["in"].items():
        inn[k2] = max(inn.get(k2, 0), v)
    return {"pages": pages, "out": out, "in": inn}


def cuts(log, byte_offsets, rng):
    """Yield (label, {name: bytes or None}) for every cut of the log.  The label
    starts with the number of log events applied (the last one possibly in part)."""
    files = {n: None for n in NAMES}
    yield ("0", dict(files))
    for idx, e in enumerate(log):
        k = idx + 1
        if e[0] == "open":
            if "w" in e[2]:
                files[e[1]] = b""
            elif files[e[1]] is None:
                files[e[1]] = b""
            yield ("%d:open" % k, dict(files))
        elif e[0] == "write":
            _, name, pos, data = e
            cur = files[name] or b""
            if pos >= len(cur):
                # append: byte-granular cuts
                if byte_offsets == "all":
                    offs = range(1, len(data))
                elif not byte_offsets:
                    offs = []
                elif isinstance(byte_offsets, int) and byte_offsets > 3:
                    offs = sorted(set(rng.randrange(1, len(data)) for _ in range(byte_offsets)) | {1, len(data) - 1})
                else:
                    offs = sorted({1, len(data) // 2, len(data) - 1})
                for o in offs:
                    f2 = dict(files)
                    f2[name] = cur + b"\0" * (pos - len(cur)) + data[:o]
                    yield ("%d:+%d" % (k, o), f2)
            new = bytearray(cur)
            if pos > len(new):
                new.extend(b"\0" * (pos - len(new)))
            new[pos : pos + len(data)] = data
            files[name] = bytes(new)
            yield ("%d" % k, dict(files))
        elif e[0] == "truncate":
            # an in-place truncation (or extension) is one atomic event of the history
            _, name, (size,) = e
            cur = files[name] or b""
            files[name] = cur[:size] + b"\0" * max(0, size - len(cur))
            yield ("%d:truncate" % k, dict(files))


def prefix_files(log, n):
    """Files holding exactly the first n logged writes (plus every open before write n+1)."""
    files = {x: None for x in NAMES}
    w = 0
    for e in log:
        if e[0] == "open":
            if "w" in e[2] or files[e[1]] is None:
                files[e[1]] = b""
        elif e[0] == "write":
            if w == n:
                break
            _, name, pos, data = e
            new = bytearray(files[name] or b"")
            if pos > len(new):
                new.extend(b"\0" * (pos - len(new)))
            new[pos : pos + len(data)] = data
            files[name] = bytes(new)
            w += 1
        elif e[0] == "truncate":
            if w == n:
                break
            _, name, (size,) = e
            cur = files[name] or b""
            files[name] = cur[:size] + b"\0" * max(0, size - len(cur))
            w += 1
    return files


def check_cut(folder, files, rules, default, facts, probes, stats, label, lite=True):
    for n in NAMES:
        p = os.path.join(folder, n)
        if files[n] is None:
            if os.path.exists(p):
                os.remove(p)
        else:
            with M.ORIG_OPEN(p, "wb") as f:
                f.write(files[n])
    try:
        t = Traph(folder=folder, default_webentity_creation_rule=default, webentity_creation_rules=dict(rules))
    except TraphException:
        stats["C18_cuts_refused"] += 1
        return None
    except Exception as e:
        return D(["C18"], "reopen-fails-with-foreign-error", cut=label, exc=type(e).__name__, msg=str(e)[:160], tb=traceback.format_exc()[-400:])
    stats["C18_cuts_opened"] += 1
    try:
        foreign = []
        ans, (n_ok, n_ref, n_exc) = B.run(t, probes, foreign=foreign, lite=lite)
        stats["C18_battery_answers"] += n_ok + n_ref
        if n_exc:
            return D(["C18"], "query-fails-on-reopened-index", cut=label, failures=foreign[:3])
        pages = {}
        for node, lru in t.pages_iter():
            pages[lru] = bool(node.is_crawled())
        # the id counter of a reopened index must not be behind the ids it already holds (ids chosen by
        # the caller, which the histories take from 100000 up, are not the index's business)
        try:
            from ..rawdecode import decode as _decode
            a_, b_ = M.store_bytes(t)
            dd = _decode(a_, b_, tolerate_truncated_tail=True)
            own = [v for v in dd.we.values() if v < 100000]
            stats["C18_id_counter_checks"] += 1
            if own and dd.last_id is not None and dd.last_id < max(own):
                # counted, not judged: the statement of C18 speaks of pages and links; C12 quantifies over close/reopen, not over crashes
                stats["note_id_counter_behind_ids_in_use_on_a_cut"] += 1
        except Exception:
            stats["C18_id_counter_check_errors"] += 1
        # what the reopened index counts must be what it enumerates ("opens consistent")
        try:
            cp, cc = t.count_pages(), t.count_crawled_pages()
        except Exception:
            cp = cc = None
        stats["C18_count_vs_enumeration"] += 1
        if cp is not None and (cp != len(pages) or cc != sum(pages.values())):
            stats["note_counts_differ_from_enumeration_on_a_cut"] += 1
            # "reports only pages ... that the completed history also reports": a count is a report too, so it may not
            # exceed what the history allows at this cut (a page block flagged before it is linked is counted and not yet
            # enumerated: that is a page of the history, and nothing fails)
            allowed_pages = len(facts["pages"])
            allowed_crawled = sum(1 for c in facts["pages"].values() if c)
            if cp > allowed_pages or cc > allowed_crawled:
                return D(["C18"], "counts-beyond-complete-history-on-reopened-index", cut=label, count_pages=cp, pages_enumerated=len(pages),
                         count_crawled=cc, crawled_enumerated=sum(pages.values()), allowed_pages=allowed_pages, allowed_crawled=allowed_crawled)
        for l, c in pages.items():
            if l not in facts["pages"]:
                return D(["C18"], "page-not-in-complete-history", cut=label, lru=l)
            if c and not facts["pages"][l]:
                return D(["C18"], "crawled-mark-not-in-complete-history", cut=label, lru=l)
        for p in pages:
            for s, x, w in t.get_page_links(p, include_inbound=False):
                if w > facts["out"].get((s, x), 0):
                    return D(["C18"], "outbound-link-beyond-complete-history", cut=label, link=(s, x), weight=w, final=facts["out"].get((s, x), 0))
            for s, x, w in t.get_page_links(p, include_outbound=False):
                if w > facts["in"].get((s, x), 0):
                    return D(["C18"], "inbound-link-beyond-complete-history", cut=label, link=(s, x), weight=w, final=facts["in"].get((s, x), 0))
        stats["C18_cuts_consistent"] += 1
    finally:
        t.close()
    return None


def run_case(prop, case, spec, scratch, stats, tier_params):
    out = []
    rng = random.Random(case["aseed"])
    log, facts, rules, disk, feats, _ = record(case, scratch, stats)
    ctor_writes = record.ctor_writes
    if facts is None:
        return out, feats, ""
    nwrites = sum(1 for e in log if e[0] in ("write", "truncate"))
    stats["C18_write_events"] += nwrites
    # M3 write-order sanitizer over the same log: an amplifier, counted in the evidence, never a verdict
    try:
        ev, _ = M.m3_check(log)
        stats["m3_logs_checked"] += 1
        stats["m3_suspicious_events"] += len(ev)
        for e in ev[:3]:
            stats["m3:" + str(e[0])] += 1
    except Exception:
        stats["m3_monitor_errors"] += 1
    # replaying the whole log must reproduce the files (validates the log)
    last = None
    for label, files in cuts(log, 0, rng):
        last = files
    if [last[n] for n in NAMES] != disk:
        out.append(D(["C18"], "HARNESS:log-does-not-reproduce-files"))
        return out, feats, ""
    folder = tempfile.mkdtemp(prefix="vtcut", dir=scratch)
    default = RX[case["cfg"]["default"]]
    probes = sorted(facts[-1][1]["pages"])[:4] + [b"s:http|h:zz|"]
    seen = set()
    try:
        sample = case.get("cut_sample")
        keep_p = min(1.0, sample / float(max(1, nwrites))) if sample else 1.0
        for label, files in cuts(log, tier_params.get("byte_offsets", 3) if not sample else 0, rng):
            if sample and rng.random() > keep_p:
                continue
            key = (hashlib.sha256((files[NAMES[0]] or b"<none>")).digest() + hashlib.sha256((files[NAMES[1]] or b"<none>")).digest()
                   + bytes([files[NAMES[0]] is None, files[NAMES[1]] is None]))
            stats["C18_cuts"] += 1
            if key in seen:
                stats["C18_cuts_same_bytes_as_earlier_cut"] += 1
                continue
            seen.add(key)
            pos = int(label.split(":")[0])
            d = check_cut(folder, files, rules, default, allowed_facts(facts, max(0, pos - 1)), probes, stats, label, lite="scale" if sample else True)
            if d:
                d["detail"]["n_writes"] = nwrites
                out.append(d)
                break
        # "one store missing": the complete files and one mid-history cut, each with either store gone
        # (whichever file the library happens to create first, a crash between the two creations leaves
        # one of these).  Same oracle: refused with the library's own error, or opens consistent.
        if not out:
            ncuts = sum(1 for _ in cuts(log, 0, rng))
            pick = rng.randrange(ncuts)
            chosen = [x for j, x in enumerate(cuts(log, 0, rng)) if j == pick or j == ncuts - 1]
            for label, files in reversed(chosen):
                for gone in NAMES:
                    if files[gone] is None or files[NAMES[1 - NAMES.index(gone)]] is None:
                        continue
                    f2 = dict(files)
                    f2[gone] = None
                    stats["C18_cuts"] += 1
                    stats["C18_cuts_one_store_missing"] += 1
                    pos = int(label.split(":")[0])
                    d = check_cut(folder, f2, rules, default, allowed_facts(facts, max(0, pos - 1)), probes, stats, label + ":without-" + gone,
                                  lite="scale" if case.get("cut_sample") else True)
                    if d:
                        d["detail"]["n_writes"] = nwrites
                        out.append(d)
                        break
                if out:
                    break
    finally:
        shutil.rmtree(folder, ignore_errors=True)
    # validate the fault model against reality on a sample of cuts: re-run the
    # history with a crash injected at write n; the files left on disk must be
    # byte-identical to the reconstruction from the first n logged writes
    if not out and nwrites:
        for _ in range(tier_params.get("validate", 2)):
            if nwrites <= ctor_writes:
                break
            n = rng.randrange(ctor_writes, nwrites)  # crashes inside the constructor are covered by the cuts only
            _, _, _, disk2, _, crashed = record(case, scratch, stats, fail_at=n)
            stats["C18_injected_crashes"] += 1
            if not crashed:
                out.append(D(["C18"], "HARNESS:injected-crash-did-not-fire", at_write=n))
                continue
            recon = prefix_files(log, n)
            if [recon[x] for x in NAMES] != disk2:
                out.append(D(["C18"], "HARNESS:reconstruction-differs-from-injected-crash", at_write=n,
                             lens=[len(recon[x] or b"") for x in NAMES] + [len(d or b"") for d in disk2]))
            else:
                stats["C18_reconstructions_validated"] += 1
    digest = hashlib.sha256((disk[0] or b"") + b"/" + (disk[1] or b"")).hexdigest()[:16]
    return out, feats, digest


def replay(prop, case):
    from .. import props as P

    M.install_m1()
    M.install_mem_write_counter()
    ds, _, _ = run_case(prop, case, P.PROPS[prop], None, Counter(), dict(P.PROPS[prop]["thorough"]))
    return ds


def run_shard(prop, spec, tier, seed, shard, nshards, scratch):
    from ..shard import save_case

    M.install_m1()
    M.install_mem_write_counter()
    M.install_m6()
    tp = spec[tier]
    stats = Counter()
    res = {"cases": 0, "violations": [], "known": [], "samples": [], "nontrivial": [], "notes": [], "inconclusive": []}
    if M.STATUS.get("M1") != "on":
        res["inconclusive"].append("recording file proxy not installed")
    deadline = time.time() + tp.get("time_cap", 600)
    saved = 0
    todo = [idx for idx in range(tp["cases"]) if idx % nshards == shard]
    if tp.get("scale"):
        todo.append("scale")
    for idx in todo:
        if time.time() > deadline and idx != "scale":
            res["notes"].append("shard %d stopped at time cap after %d cases" % (shard, res["cases"]))
            continue
        if idx == "scale":
            case = scale_case(random.Random("%s/%s/scale" % (seed, prop)), tp["scale"])
            case["aseed"] += shard  # the same history everywhere, another sample of its cuts on every shard
            case["cut_sample"] = tp.get("scale_cuts", 30)
            case["id"] = "scale/%s/%s" % (tp["scale"], shard)
            stats["C18_scale_histories"] += 1
        else:
            rng = random.Random("%s/%s/%s/%s" % (seed, prop, tier, idx))
            case = build_case(rng, spec, tier)
            case["id"] = "%s/%s/%s/%s" % (seed, prop, tier, idx)
        try:
            ds, feats, digest = run_case(prop, case, spec, scratch, stats, tp)
        except Exception as e:
            ds, feats, digest = [D([prop], "HARNESS:exception", exc=repr(e), tb=traceback.format_exc()[-600:])], {}, ""
        res["cases"] += 1
        if feats and spec["nontrivial"](feats):
            res["nontrivial"].append(digest)
        if len(res["samples"]) < 2 and feats.get("pages", 0) > 2:
            res["samples"].append({"cfg": case["cfg"], "ops": case["ops"][:5], "n_ops": len(case["ops"]), "final_state": feats})
        for d in ds:
            if d["kind"].startswith("HARNESS:"):
                res["inconclusive"].append("%s in case %s: %s" % (d["kind"], case["id"], d["detail"]))
                continue
            entry = {"discrepancy": d, "case": case["id"]}
            if saved < 4:
                saved += 1
                c = dict(case)
                c["violation"] = d
                entry["case_file"] = save_case(prop, seed, shard, idx, c)
            res["violations"].append(entry)
            break
    res["counters"] = dict(stats)
    res["monitors"] = dict(M.STATUS)
    res["reach"] = M.reach_for(spec.get("anchors", []))
    return res
