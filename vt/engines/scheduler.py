# Scheduler engine (C16): 2-3 iterator requests advanced in turns, with every
# loop iteration made a yield point (M7).  Oracles: no request raises; final
# pages / crawled marks / link multigraph equal the batches applied one after
# another; S1-S7 incl. inbound/outbound symmetry; each query's answer lies
# between what qualified at every moment of its window and what qualified at
# some moment (qualifying sets computed from the raw bytes after every step).
import hashlib
import random
import time
import traceback
from collections import Counter, defaultdict

from .. import monitors as M
from ..gen import make_pool, gen_history, some_prefix, RX
from ..harness import Sut, D
from ..rawdecode import decode
from ..util import prefixes_of, stems

QUERY_KINDS = ["pages", "crawled", "most_linked", "children", "pagelinks", "pagelinks_all", "outlinks", "inlinks",
               "net_fast_out", "net_fast_in", "net_slow_out", "net_fast_out_auto", "net_slow_in_auto"]


# --------------------------------------------------------------------------
# case construction
# --------------------------------------------------------------------------
def build_case(rng, spec, tier):
    tp = spec[tier]
    pool, _ = make_pool(rng, n=rng.choice((8, 12, 16)), classes=("real", "real", "deep", "long"), long_ok=True)
    cfg = {"backend": rng.choice(["memory", "memory", "file"]), "default": rng.choice(["domain", "subdomain"]), "encoding": "utf-8",
           "overwrite": False, "rules": []}
    base = gen_history(rng, cfg, pool, set(), rng.choice((3, 6, 10)),
                       weights={"add_page": 4, "add_pages": 1, "add_links": 6, "batch": 2, "create": 2, "addp": 1, "delete": 0, "rmp": 0,
                                "mvp": 0, "rule": 0, "rmrule": 0, "reopen": 0, "clear": 0, "bad_delete": 0, "bad_rmp": 0, "bad_mvp": 0})
    reqs = []
    nb = rng.choice([1, 1, 2])
    for _ in range(nb):
        data = []
        srcs = set()
        for _ in range(rng.randint(1, tp.get("max_sources", 3))):
            s = rng.choice(pool)
            if s in srcs:
                continue
            srcs.add(s)
            data.append([s, [rng.choice(pool) for _ in range(rng.randint(0, tp.get("max_targets", 3)))]])
        reqs.append({"kind": "batch", "data": data})
    if rng.random() < 0.6:
        a = some_prefix(rng, rng.choice(pool), 2, 3)
        if a.startswith(b"s:"):
            reqs.append({"kind": "rule", "anchor": a, "rule": rng.choice(["path1", "path2", "subdomain"])})
    if rng.random() < 0.85 or len(reqs) < 2:
        reqs.append({"kind": "query", "q": rng.choice(QUERY_KINDS), "of": rng.choice(pool), "k": rng.choice([1, 2, 5])})
        if rng.random() < 0.3:
            # a second reader alive at the same time (readers must not disturb each other either)
            reqs.append({"kind": "query", "q": rng.choice(QUERY_KINDS), "of": rng.choice(pool), "k": rng.choice([1, 2, 5])})
    if len(reqs) > 3:
        keep = [r for r in reqs if r["kind"] == "query"]
        rest = [r for r in reqs if r["kind"] != "query"]
        rng.shuffle(rest)
        reqs = rest[: 3 - len(keep)] + keep
    return {"engine": "scheduler", "cfg": cfg, "base": base, "requests": reqs, "sseed": rng.getrandbits(32), "warmup": rng.random() < 0.5}


# --------------------------------------------------------------------------
# qualifying sets from raw bytes
# --------------------------------------------------------------------------
class Snap(object):
    def __init__(self, dec):
        self.pages = dec.pages
        self.we = dec.we  # prefix -> actual id
        self.out = dec.out
        self.inn = dec.inn
        self._res = {}

    def resolve(self, lru):
        r = self._res.get(lru)
        if r is None:
            best = (None, None)
            for p in prefixes_of(lru):
                if p in self.we:
                    best = (self.we[p], p)
            r = self._res[lru] = best
        return r

    def we_pages(self, ps):
        s = set(ps)
        return [p for p in self.pages if self.resolve(p)[1] in s]


def qualifying(snap, q, w, ps):
    """Counter of elementary items of query q at this moment."""
    kind = q["q"]
    if kind == "pages":
        return Counter(snap.we_pages(ps))
    if kind == "crawled":
        return Counter(p for p in snap.we_pages(ps) if snap.pages[p])
    if kind == "children":
        return Counter({w2 for p2, w2 in snap.we.items() if w2 != w and any(p2.startswith(p) and p2 != p for p in ps)})
    if kind in ("pagelinks", "pagelinks_all"):
        mine = set(snap.we_pages(ps))
        c = Counter()
        for (s, t), n in snap.out.items():
            if s in mine:
                internal = snap.resolve(t)[0] == w
                if internal or kind == "pagelinks_all":
                    c[(s, t)] += n
        if kind == "pagelinks_all":
            for (s, t), n in snap.inn.items():
                if t in mine and snap.resolve(s)[0] != w:
                    c[(s, t)] += n
        return c
    if kind == "outlinks":
        mine = set(snap.we_pages(ps))
        return Counter({snap.resolve(t)[0] for (s, t) in snap.out if s in mine} - {None})
    if kind == "inlinks":
        mine = set(snap.we_pages(ps))
        return Counter({snap.resolve(s)[0] for (s, t) in snap.inn if t in mine} - {None})
    if kind == "most_linked":
        mine = snap.we_pages(ps)
        d = defaultdict(set)
        for (s, t) in snap.inn:
            d[t].add(s)
        return Counter({p: len(d.get(p, ())) for p in mine}), set(mine)
    raise ValueError(kind)


def net_parts(snap, out):
    """(page -> weid, link weights) for the network bracket."""
    links = snap.out if out else snap.inn
    return {p: snap.resolve(p)[0] for p in snap.pages}, links


# --------------------------------------------------------------------------
# running one schedule
# --------------------------------------------------------------------------
def make_gen(sut, req, ctx):
    t = sut.t
    k = req["kind"]
    if k == "batch":
        data = {}
        for s, ts in req["data"]:
            data[s] = list(ts)
        return t.index_batch_crawl_iter(data, 1)
    if k == "rule":
        return t.add_webentity_creation_rule_iter(req["anchor"], RX[req["rule"]])
    q = req["q"]
    w, ps = ctx["w"], ctx["ps"]
    if q == "pages":
        return t.get_webentity_pages_iter(w, ps)
    if q == "crawled":
        return t.get_webentity_crawled_pages_iter(w, ps)
    if q == "most_linked":
        return t.get_webentity_most_linked_pages_iter(w, ps, pages_count=req.get("k", 2))
    if q == "children":
        return t.get_webentity_child_webentities_iter(w, ps)
    if q == "pagelinks":
        return t.get_webentity_pagelinks_iter(w, ps)
    if q == "pagelinks_all":
        return t.get_webentity_pagelinks_iter(w, ps, include_inbound=True, include_internal=True, include_outbound=True)
    if q == "outlinks":
        return t.get_webentity_outlinks_iter(w, ps)
    if q == "inlinks":
        return t.get_webentity_inlinks_iter(w, ps)
    if q.startswith("net_"):
        fast = "fast" in q
        out = "_out" in q
        auto = q.endswith("auto")
        fn = t.get_webentities_links_iter if fast else t.get_webentities_links_slow_iter
        return fn(out=out, include_auto=auto)
    raise ValueError(q)


def run_schedule(case, chooser, scratch, stats):
    """chooser(step_no, alive_indices) -> index.  Returns (discrepancies, trace, info)."""
    out = []
    sut = Sut(case["cfg"], scratch, Counter())
    trace = []
    info = {"steps": 0, "window_changes": 0}
    try:
        for op in case["base"]:
            sut.apply(op)
            if sut.dead:
                return out, trace, info
        m = sut.m
        reqs = case["requests"]
        gens = []
        queries = {}  # request index -> {"req", "ctx", "snaps", "started", "done"}
        for i, r in enumerate(reqs):
            if r["kind"] != "query":
                gens.append([r, None, False, None, None])
                continue
            ctx = {"w": None, "ps": None}
            qreq = r
            if not r["q"].startswith("net_"):
                gid, pre = m.resolve(r["of"])
                if gid is None and m.we:
                    gid = m.we[sorted(m.we)[0]]
                if gid is None:
                    qreq = {"kind": "query", "q": "net_fast_out"}  # no webentity at all: fall back to the network query
                else:
                    ctx["w"] = sut.idmap.get(gid)
                    ctx["ps"] = sorted(p for p, g in m.we.items() if g == gid)
            gens.append([qreq, None, False, None, ctx])  # request, generator (created at first step), done, result, ctx
            queries[i] = {"req": qreq, "ctx": ctx, "snaps": [], "started": False, "done": False}
        if case.get("warmup"):
            # the same kinds of queries already ran once on this index before the concurrent phase:
            # whatever a request keeps beyond its own lifetime is now in place
            for qi, q in queries.items():
                try:
                    for _ in make_gen(sut, q["req"], q["ctx"]):
                        pass
                except Exception:
                    pass
            try:
                for _ in sut.t.get_webentities_links_slow_iter():
                    pass
            except Exception:
                pass
            stats["C16_warmed_up_schedules"] += 1
        M.m2_take()

        def snapshot():
            a, b = M.store_bytes(sut.t)
            return Snap(decode(a, b))

        step = 0
        while True:
            alive = [i for i, g in enumerate(gens) if not g[2]]
            if not alive:
                break
            i = chooser(step, alive)
            trace.append(i)
            g = gens[i]
            try:
                if g[1] is None:
                    if i in queries:
                        queries[i]["snaps"].append(snapshot())
                        queries[i]["started"] = True
                    g[1] = make_gen(sut, g[0], g[4] or {})
                st = next(g[1])
                if st.done:
                    g[2] = True
                    g[3] = st.result
            except StopIteration:
                g[2] = True
            except Exception as e:
                out.append(D(["C16"], "request-raises", request=g[0]["kind"] + ":" + str(g[0].get("q", "")), step=step,
                             exc=type(e).__name__, msg=str(e)[:200], tb=traceback.format_exc()[-500:]))
                return out, trace, info
            step += 1
            stats["C16_steps"] += 1
            live = [q for q in queries.values() if q["started"] and not q["done"]]
            if live:
                snap = snapshot()
                for qi, q in queries.items():
                    if q["started"] and not q["done"]:
                        q["snaps"].append(snap)
                        if gens[qi][2]:
                            q["done"] = True
            ev = M.m2_take()
            if ev:
                stats["m2_suspicious_events"] += len(ev)
                a, b = M.store_bytes(sut.t)
                dec = decode(a, b)
                if dec.errors:
                    out.append(D(["C16"], "structure-after-lost-update", errors=dec.errors[:3], m2=[list(map(repr, e)) for e in ev[:2]], step=step))
                    return out, trace, info
        info["steps"] = step
        # ---- final state: batches applied one after another
        for r in reqs:
            if r["kind"] == "batch":
                m.batch(r["data"])
        a, b = M.store_bytes(sut.t)
        dec = decode(a, b)
        stats["C16_final_state_checks"] += 1
        if dec.errors:
            out.append(D(["C16"], "structure", errors=dec.errors[:4]))
            return out, trace, info
        if dec.pages != m.pages:
            out.append(D(["C16"], "final-pages", diff=sorted(set(dec.pages.items()) ^ set(m.pages.items()))[:5]))
            return out, trace, info
        if dec.out != m.links or dec.inn != m.links:
            out.append(D(["C16"], "final-links", out_diff=sorted(((dec.out - m.links) + (m.links - dec.out)).items())[:4],
                         in_diff=sorted(((dec.inn - m.links) + (m.links - dec.inn)).items())[:4]))
            return out, trace, info
        # API view of the final state too
        got = {l: bool(n.is_crawled()) for n, l in sut.t.pages_iter()}
        if got != m.pages:
            out.append(D(["C16"], "final-pages-api", diff=sorted(set(got.items()) ^ set(m.pages.items()))[:5]))
            return out, trace, info
        # ---- query brackets
        for qi, q in queries.items():
            if not q["snaps"]:
                continue
            keys = [hashlib.sha256(repr((sorted(x.pages.items()), sorted(x.we.items()), sorted(x.out.items()), sorted(x.inn.items()))).encode()).digest() for x in q["snaps"]]
            info["window_changes"] = max(info["window_changes"], len(set(keys)) - 1)
            d = bracket(q["req"], gens[qi][3], q["snaps"], q["ctx"], stats)
            if d:
                out.append(d)
                break
        if len(queries) > 1:
            stats["C16_schedules_with_two_readers"] += 1
        a, b = M.store_bytes(sut.t)
        info["digest"] = hashlib.sha256(a + b"/" + b).hexdigest()[:16]
    finally:
        sut.close()
    return out, trace, info


def bracket(q, res, snaps, ctx, stats):
    kind = q["q"]
    w, ps = ctx["w"], ctx["ps"]
    stats["C16_query_brackets"] += 1
    stats["C16_bracket:" + kind] += 1
    if kind.startswith("net_"):
        out = "_out" in kind
        auto = kind.endswith("auto")
        got = Counter()
        for a, dct in res.items():
            for b2, c in dct.items():
                if not isinstance(b2, str) and c:
                    got[(a, b2)] += c
        R = defaultdict(set)
        minw = None
        maxw = Counter()
        for s in snaps:
            res_map, links = net_parts(s, out)
            for p, x in res_map.items():
                R[p].add(x)
            for k2, v in links.items():
                if v > maxw[k2]:
                    maxw[k2] = v
            minw = Counter(links) if minw is None else (minw & links)
            # pages absent at this moment resolve to nothing
            for p in list(R):
                if p not in res_map:
                    R[p].add(None)
        lo = Counter()
        hi = Counter()
        for (s, t), v in maxw.items():
            src, tgt = (s, t) if out else (t, s)
            for A in R[src]:
                for B2 in R[tgt]:
                    if A is None or B2 is None or (A == B2 and not auto):
                        continue
                    hi[(A, B2)] += v
            if len(R[src]) == 1 and len(R[tgt]) == 1 and minw[(s, t)]:
                A = next(iter(R[src]))
                B2 = next(iter(R[tgt]))
                if A is not None and B2 is not None and (A != B2 or auto):
                    lo[(A, B2)] += minw[(s, t)]
        for k2, v in lo.items():
            if got[k2] < v:
                return D(["C16"], "query-misses-item-that-qualified-throughout", query=kind, item=k2, got=got[k2], at_least=v)
        for k2, v in got.items():
            if v > hi[k2]:
                return D(["C16"], "query-reports-item-that-never-qualified", query=kind, item=k2, got=v, at_most=hi[k2])
        return None
    if kind == "most_linked":
        lo = None
        hi = Counter()
        ever = set()
        for s in snaps:
            c, mine = qualifying(s, q, w, ps)
            ever |= mine
            for p, v in c.items():
                hi[p] = max(hi[p], v)
            lo = dict(c) if lo is None else {p: min(v, c[p]) for p, v in lo.items() if p in c}
        for x in res:
            p, dgr = x["lru"], x["indegree"]
            if p not in ever:
                return D(["C16"], "query-reports-item-that-never-qualified", query=kind, item=p)
            if dgr > max(hi[p], 1) or (lo is not None and p in lo and dgr < lo[p]):
                return D(["C16"], "query-reports-item-that-never-qualified", query=kind, item=p, indegree=dgr, at_most=max(hi[p], 1))
        return None
    # link-ish kinds: elementary item = a page link; its source membership and the
    # resolution of its other end may have been observed at different moments
    if kind in ("pagelinks", "pagelinks_all", "outlinks", "inlinks"):
        R = defaultdict(set)
        ever = set()
        always = None
        mino = mini = None
        maxo = Counter()
        maxi = Counter()
        for s in snaps:
            mine = set(s.we_pages(ps))
            ever |= mine
            always = set(mine) if always is None else (always & mine)
            for p in s.pages:
                R[p].add(s.resolve(p)[0])
            for k2, v in s.out.items():
                maxo[k2] = max(maxo[k2], v)
            for k2, v in s.inn.items():
                maxi[k2] = max(maxi[k2], v)
            mino = Counter(s.out) if mino is None else (mino & s.out)
            mini = Counter(s.inn) if mini is None else (mini & s.inn)
        if kind in ("outlinks", "inlinks"):
            got = set(x for x in res if x is not None)
            mx, mn = (maxo, mino) if kind == "outlinks" else (maxi, mini)
            hi = set()
            lo = set()
            for (a, b2), v in mx.items():
                here, other = (a, b2) if kind == "outlinks" else (b2, a)
                if here in ever:
                    hi |= R[other]
                if here in always and mn[(a, b2)] and len(R[other]) == 1:
                    lo |= R[other]
            lo.discard(None)
            for x in lo - got:
                return D(["C16"], "query-misses-item-that-qualified-throughout", query=kind, item=x)
            for x in got - hi:
                return D(["C16"], "query-reports-item-that-never-qualified", query=kind, item=x)
            return None
        got = Counter()
        for a, b2, n in res:
            got[(a, b2)] += n
        lo = Counter()
        hi = Counter()
        for (a, b2), v in maxo.items():
            if a in ever and (kind == "pagelinks_all" or w in R[b2]):
                hi[(a, b2)] = max(hi[(a, b2)], v)
            if a in always and mino[(a, b2)] and (kind == "pagelinks_all" or R[b2] == {w}):
                lo[(a, b2)] = mino[(a, b2)]
        if kind == "pagelinks_all":
            for (a, b2), v in maxi.items():
                if b2 in ever and (R[a] - {w}):
                    # the same page link may be reported once from its source's outbound list and once from
                    # its target's inbound list when the source left the webentity between the two visits
                    hi[(a, b2)] = hi[(a, b2)] + v
                if b2 in always and mini[(a, b2)] and w not in R[a] and a not in ever:
                    lo[(a, b2)] = max(lo[(a, b2)], mini[(a, b2)])
        for k2, v in lo.items():
            if got[k2] < v:
                return D(["C16"], "query-misses-item-that-qualified-throughout", query=kind, item=k2, got=got[k2], at_least=v)
        for k2, v in got.items():
            if v > hi[k2]:
                return D(["C16"], "query-reports-item-that-never-qualified", query=kind, item=k2, got=v, at_most=hi[k2])
        return None
    if kind == "crawled":
        # two facts about a page, possibly observed at different moments: it is reached from the
        # webentity's prefixes (decided when its ancestors are walked) and it is crawled (read when it is visited)
        got = Counter(x["lru"] for x in res)
        ever_in = set()
        always_in = None
        ever_cr = set()
        always_cr = None
        for s_ in snaps:
            mine = set(s_.we_pages(ps))
            ever_in |= mine
            always_in = set(mine) if always_in is None else (always_in & mine)
            cr = {p_ for p_, c in s_.pages.items() if c}
            ever_cr |= cr
            always_cr = set(cr) if always_cr is None else (always_cr & cr)
        for p_ in (always_in & always_cr):
            if got[p_] < 1:
                return D(["C16"], "query-misses-item-that-qualified-throughout", query=kind, item=p_)
        for p_, v in got.items():
            if v > 1 or p_ not in ever_in or p_ not in ever_cr:
                return D(["C16"], "query-reports-item-that-never-qualified", query=kind, item=p_, got=v,
                         ever_in_webentity=p_ in ever_in, ever_crawled=p_ in ever_cr)
        return None
    # page / webentity sets
    if kind in ("pages", "crawled"):
        got = Counter(x["lru"] for x in res)
    else:
        got = Counter(x for x in res if x is not None)
    lo = hi = None
    for s in snaps:
        c = qualifying(s, q, w, ps)
        lo = c if lo is None else (lo & c)
        hi = c if hi is None else (hi | c)
    for k2, v in lo.items():
        if got[k2] < v:
            return D(["C16"], "query-misses-item-that-qualified-throughout", query=kind, item=k2, got=got[k2], at_least=v)
    for k2, v in got.items():
        if v > hi[k2]:
            return D(["C16"], "query-reports-item-that-never-qualified", query=kind, item=k2, got=v, at_most=hi[k2])
    return None


# --------------------------------------------------------------------------
# schedule exploration
# --------------------------------------------------------------------------
def random_chooser(rng):
    style = rng.choice(["uniform", "uniform", "sticky", "burst"])
    state = {"last": None}

    def choose(step, alive):
        if style == "sticky" and state["last"] in alive and rng.random() < 0.7:
            return state["last"]
        if style == "burst" and state["last"] in alive and rng.random() < 0.9:
            return state["last"]
        state["last"] = rng.choice(alive)
        return state["last"]

    return choose


def scale_program(rng, n):
    """Scale: one crawl batch in which a hub page is cited by n sources (n > 1000) and a second page has
    n targets, advanced in turns with two small batches that cite / crawl those same two pages.  No query
    (a per-step snapshot of an index this size would dominate); the oracles are: nothing raises, the final
    pages and link multigraph are those of the batches applied one after another, S1-S7 and symmetry."""
    site = b"s:http|h:com|h:sc|"
    hub, fan = site + b"p:hub|", site + b"p:fan|"
    srcs = [site + b"p:s%04d|" % i for i in range(n)]
    tgts = [fan + b"p:t%04d|" % i for i in range(n)]
    rng.shuffle(srcs)
    extra = [site + b"p:x%d|" % i for i in range(6)]
    base = [{"op": "add_pages", "lrus": [hub, fan] + extra[:2], "crawled": False, "as_str": False},
            {"op": "add_links", "links": [[extra[0], hub], [fan, extra[1]]], "as_str": False}]
    big = {"kind": "batch", "data": [[s_, [hub] + ([rng.choice(tgts)] if rng.random() < 0.1 else [])] for s_ in srcs] + [[fan, list(tgts)]]}
    small1 = {"kind": "batch", "data": [[extra[2], [hub, fan]], [hub, [extra[3], hub + b"p:child|"]]]}
    small2 = {"kind": "batch", "data": [[fan, [extra[4]]], [tgts[0], [hub]], [extra[5], [fan + b"p:a|", hub]]]}
    cfg = {"backend": rng.choice(["memory", "file"]), "default": "domain", "encoding": "utf-8", "overwrite": False, "rules": []}
    return {"engine": "scheduler", "cfg": cfg, "base": base, "requests": [big, small1, small2], "sseed": rng.getrandbits(32), "warmup": False, "scale": n}


def delayed_chooser(rng, total0):
    """Request 0 (the big one) runs throughout; every other request starts once request 0 has made a
    random number of steps (uniform over its whole length) and is then advanced about every other step."""
    start = {}
    done0 = [0]

    def choose(step, alive):
        others = []
        for i in alive:
            if i == 0:
                continue
            if i not in start:
                start[i] = rng.randrange(0, max(1, total0))
            if done0[0] >= start[i] or 0 not in alive:
                others.append(i)
        if others and (0 not in alive or rng.random() < 0.5):
            return rng.choice(others)
        if 0 in alive:
            done0[0] += 1
            return 0
        return rng.choice(alive)

    return choose


def insertion_chooser(at, order):
    """Request 0 makes `at` steps, then the other requests run to completion in the given order, then
    request 0 continues: the small requests inserted, whole, at one yield point of the big one."""
    done0 = [0]

    def choose(step, alive):
        if 0 in alive and done0[0] < at:
            done0[0] += 1
            return 0
        for i in order:
            if i in alive:
                return i
        return alive[0]

    return choose


def forced_chooser(prefix, record):
    def choose(step, alive):
        record.append(list(alive))
        if step < len(prefix):
            return prefix[step] if prefix[step] in alive else alive[0]
        return alive[0]

    return choose


def explore_all(case, scratch, stats, limit, deadline, on_schedule=None):
    """Stateless DFS over all interleavings. Returns (discrepancy list, n schedules, complete?)."""
    prefix = []
    n = 0
    while True:
        if n >= limit or time.time() > deadline:
            return [], n, False
        rec = []
        ds, trace, info = run_schedule(case, forced_chooser(prefix, rec), scratch, stats)
        n += 1
        stats["C16_schedules"] += 1
        stats["C16_schedules_exhaustive"] += 1
        if on_schedule:
            on_schedule(trace, info)
        if ds:
            for d in ds:
                d["schedule"] = trace
            return ds, n, False
        # backtrack: last position with an untried alternative
        k = len(trace) - 1
        nxt = None
        while k >= 0:
            alive = rec[k]
            j = alive.index(trace[k])
            if j + 1 < len(alive):
                nxt = trace[:k] + [alive[j + 1]]
                break
            k -= 1
        if nxt is None:
            return [], n, True
        prefix = nxt


def replay(prop, case):
    M.install_m1()
    M.install_mem_write_counter()
    M.install_m2()
    M.install_m7()
    sched = case.get("schedule")
    stats = Counter()
    if sched is not None:
        rec = []
        ds, trace, info = run_schedule(case, forced_chooser(sched, rec), None, stats)
    else:
        ds, trace, info = run_schedule(case, random_chooser(random.Random(case["sseed"])), None, stats)
    return ds


def run_shard(prop, spec, tier, seed, shard, nshards, scratch):
    from ..shard import save_case

    M.install_m1()
    M.install_mem_write_counter()
    M.install_m2()
    M.install_m6()
    forced = M.install_m7()
    tp = spec[tier]
    stats = Counter()
    res = {"cases": 0, "violations": [], "known": [], "samples": [], "nontrivial": [], "notes": [], "inconclusive": []}
    if not forced:
        res["inconclusive"].append("yield forcing (M7) could not be installed: TraphIteratorState.should_yield missing")
    deadline = time.time() + tp.get("time_cap", 600)
    saved = 0
    distinct_sched = set()
    state_digests = set()
    for idx in range(tp["programs"]):
        if idx % nshards != shard:
            continue
        if time.time() > deadline:
            res["notes"].append("shard %d stopped at time cap after %d programs" % (shard, idx))
            break
        rng = random.Random("%s/%s/%s/%s" % (seed, prop, tier, idx))
        case = build_case(rng, spec, tier)
        case["id"] = "%s/%s/%s/%s" % (seed, prop, tier, idx)
        stats["C16_programs"] += 1
        found = []
        exhaustive_done = False
        if tp.get("exhaustive_limit") and rng.random() < tp.get("exhaustive_share", 0.3):
            # small programs: all interleavings
            small = dict(case)
            def seen(trace, info, _id=case["id"]):
                if info.get("steps", 0) >= 4 and len(set(trace)) >= 2:
                    res["nontrivial"].append(hashlib.sha256(repr((_id, trace)).encode()).hexdigest()[:16])
                if info.get("window_changes", 0) > 0:
                    stats["C16_query_windows_with_state_change"] += 1
                if info.get("digest"):
                    state_digests.add(info["digest"])

            ds, n, complete = explore_all(small, scratch, stats, tp["exhaustive_limit"], deadline, seen)
            res["cases"] += n
            if complete:
                stats["C16_programs_all_interleavings"] += 1
            found = ds
            exhaustive_done = True
        if not found and not exhaustive_done:
            for j in range(tp["schedules_per_program"]):
                srng = random.Random("%s/%s" % (case["sseed"], j))
                ds, trace, info = run_schedule(case, random_chooser(srng), scratch, stats)
                res["cases"] += 1
                stats["C16_schedules"] += 1
                key = hashlib.sha256(repr((case["id"], trace)).encode()).hexdigest()[:16]
                distinct_sched.add(key)
                if info.get("window_changes", 0) > 0:
                    stats["C16_query_windows_with_state_change"] += 1
                if info.get("steps", 0) >= 4 and len(set(trace)) >= 2:
                    res["nontrivial"].append(key)
                if info.get("digest"):
                    state_digests.add(info["digest"])
                if len(res["samples"]) < 2 and len(trace) > 6:
                    res["samples"].append({"requests": [(r["kind"], r.get("q"), len(r.get("data", []))) for r in case["requests"]],
                                           "schedule": trace[:40], "steps": info.get("steps"), "query_window_state_changes": info.get("window_changes")})
                if ds:
                    for d in ds:
                        d["schedule"] = trace
                    found = ds
                    break
                if time.time() > deadline:
                    break
        for d in found:
            entry = {"discrepancy": d, "case": case["id"]}
            if saved < 4:
                saved += 1
                c = dict(case)
                c["schedule"] = d.get("schedule")
                c["violation"] = d
                entry["case_file"] = save_case(prop, seed, shard, idx, c)
            res["violations"].append(entry)
            break
    if tp.get("scale"):
        rng = random.Random("%s/%s/scale" % (seed, prop))
        case = scale_program(rng, tp["scale"])
        case["id"] = "scale/%s" % tp["scale"]
        stats["C16_scale_programs"] += 1
        rec = []
        ds, trace, info = run_schedule(case, forced_chooser([], rec), scratch, stats)  # one after another: counts the steps
        total0 = sum(1 for x in trace if x == 0)
        res["cases"] += 1
        found = ds
        # every stride-th yield point of the big batch as the place where the small ones run (split over the
        # shards), then randomly delayed, step-wise interleaved schedules
        plans = [("at", p_) for p_ in range(shard * tp.get("scale_stride", 1), total0 + 1, nshards * tp.get("scale_stride", 1))]
        plans += [("rnd", "%s/%s" % (shard, j)) for j in range(tp.get("scale_schedules", 4))]
        for kind, arg in plans:
            if found or time.time() > deadline + 60:
                if not found:
                    res["notes"].append("shard %d: scale schedules cut short by the time cap" % shard)
                break
            if kind == "at":
                ch = insertion_chooser(arg, [1, 2] if (arg // nshards) % 2 == 0 else [2, 1])
                stats["C16_scale_insertion_points"] += 1
            else:
                ch = delayed_chooser(random.Random("%s/%s" % (case["sseed"], arg)), total0)
            ds, trace, info = run_schedule(case, ch, scratch, stats)
            res["cases"] += 1
            stats["C16_scale_schedules"] += 1
            stats["C16_scale_steps"] += info.get("steps", 0)
            if info.get("digest"):
                state_digests.add(info["digest"])
            if ds:
                for d in ds:
                    d["schedule"] = trace
                found = ds
        if shard == 0:
            res["notes"].append("scale program: %d sources citing one page and one page with %d targets in one batch, %d steps, with two small batches"
                                % (tp["scale"], tp["scale"], total0))
        for d in found:
            entry = {"discrepancy": d, "case": case["id"]}
            c = dict(case)
            c["schedule"] = d.get("schedule")
            c["violation"] = d
            entry["case_file"] = save_case(prop, seed, shard, "scale", c)
            res["violations"].append(entry)
            break
    stats["C16_distinct_random_schedules"] = len(distinct_sched)
    stats["C16_distinct_final_states"] = len(state_digests)
    res["counters"] = dict(stats)
    res["monitors"] = dict(M.STATUS)
    res["reach"] = M.reach_for(spec.get("anchors", []))
    return res
