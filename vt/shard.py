# One shard of a check: runs the engine named by the property's spec and writes
# a JSON result.  Also the replay entry point.
import faulthandler
import importlib
import os
import sys
import time

from .util import VERIF, jdump_file, jload_file


def engine_for(prop):
    from . import props as P

    return importlib.import_module("vt.engines." + P.PROPS[prop]["engine"])


def replay(prop, path):
    case = jload_file(path)
    from . import props as P

    eng = importlib.import_module("vt.engines." + (case.get("engine") or P.PROPS[prop]["engine"]))
    return eng.replay(prop, case)


def save_case(prop, seed, shard, idx, case):
    d = os.environ.get("VERIF_REPLAY_DIR") or os.path.join(VERIF, "replays")
    os.makedirs(d, exist_ok=True)
    p = os.path.join(d, "%s-seed%s-shard%s-case%s.json" % (prop, seed, shard, idx))
    jdump_file(case, p)
    # a shard that is later killed by the watchdog (a damaged index can make a traversal loop) must not
    # lose the violations it has already witnessed: they are also appended to a sidecar the runner reads
    side = os.environ.get("VERIF_SHARD_PARTIAL")
    if side and isinstance(case, dict) and case.get("violation") is not None:
        try:
            import json
            from .util import jdumps

            with open(side, "a") as f:
                f.write(jdumps({"discrepancy": case["violation"], "case": case.get("id"), "case_file": p}) + "\n")
        except Exception:
            pass
    return p


def main():
    prop, tier, seed, shard, nshards, outp, scratch = sys.argv[1:8]
    seed, shard, nshards = int(seed), int(shard), int(nshards)
    from . import props as P

    spec = P.PROPS[prop]
    faulthandler.dump_traceback_later(spec[tier].get("watchdog", 900) - 5, exit=False)
    eng = engine_for(prop)
    os.environ["VERIF_SHARD_PARTIAL"] = outp + ".partial"
    t0 = time.time()
    res = eng.run_shard(prop, spec, tier, seed, shard, nshards, scratch)
    res["wall"] = time.time() - t0
    from . import monitors as M

    res["lines"] = M.lines_reached()
    jdump_file(res, outp)


if __name__ == "__main__":
    main()
