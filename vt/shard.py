# One shard of a check: runs the engine named by the property's spec and writes
# a JSON result.  Also the replay entry point.
import faulthandler
import importlib
import os
import sys
import time

from .util import VERIF, jdump_file, jload_file


def engine_for(prop):
    from . import props as P

    return importlib.import_module("vt.engines." + P.PROPS[prop]["engine"])


def replay(prop, path):
    case = jload_file(path)
    from . import props as P

    eng = importlib.import_module("vt.engines." + (case.get("engine") or P.PROPS[prop]["engine"]))
    return eng.replay(prop, case)


def save_case(prop, seed, shard, idx, case):
    d = os.environ.get("VERIF_REPLAY_DIR") or os.path.join(VERIF, "replays")
    os.makedirs(d, exist_ok=True)
    p = os.path.join(d, "%s-seed%s-shard%s-case%s.json" % (prop, seed, shard, idx))
    jdump_file(case, p)
    return p


def main():
    prop, tier, seed, shard, nshards, outp, scratch = sys.argv[1:8]
    seed, shard, nshards = int(seed), int(shard), int(nshards)
    from . import props as P

    spec = P.PROPS[prop]
    faulthandler.dump_traceback_later(spec[tier].get("watchdog", 900) - 5, exit=False)
    eng = engine_for(prop)
    t0 = time.time()
    res = eng.run_shard(prop, spec, tier, seed, shard, nshards, scratch)
    res["wall"] = time.time() - t0
    from . import monitors as M

    res["lines"] = M.lines_reached()
    jdump_file(res, outp)


if __name__ == "__main__":
    main()
