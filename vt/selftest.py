# Monitor self-test (DESIGN.md section 5): each injected fault must be reported.
import struct
import sys
import tempfile
import shutil

from .util import import_traph

import_traph()
from . import monitors as M
from .rawdecode import decode


def build():
    from traph import Traph
    from .gen import RX

    t = Traph(folder=None, default_webentity_creation_rule=RX["domain"], webentity_creation_rules={})
    t.add_links([(b"s:http|h:com|h:a|p:x|", b"s:http|h:com|h:b|p:" + b"y" * 100 + b"|"),
                 (b"s:http|h:com|h:a|p:x|", b"s:http|h:com|h:a|p:w|"),
                 (b"s:http|h:com|h:a|p:a|", b"s:http|h:com|h:a|p:x|")])
    return t


def main():
    ok = True
    t = build()
    a, b = M.store_bytes(t)
    d = decode(a, b)
    if d.errors:
        print("selftest: clean store reported", d.errors)
        ok = False

    def expect(name, ta, lb, code):
        nonlocal ok
        e = decode(ta, lb).errors
        if not any(c.startswith(code) for c, _ in e):
            print("selftest: fault %s not reported (%s)" % (name, e))
            ok = False

    # orphan block appended
    expect("orphan main block", a + a[128:256], b, "S3")
    # broken BST order: swap stems of two sibling blocks -> find a block with a left pointer
    ta = bytearray(a)
    for i in range(1, len(a) // 128):
        l = struct.unpack_from("<Q", a, i * 128 + 80)[0]
        if l:
            ta[i * 128 + 1] = 0x00  # first stem byte made smaller than its left sibling's
            break
    expect("BST order", bytes(ta), b, "S4")
    # asymmetric link: corrupt one stub target to another page
    lb = bytearray(b)
    t1 = struct.unpack_from("<Q", b, 16)[0]
    t2 = struct.unpack_from("<Q", b, 32)[0]
    struct.pack_into("<Q", lb, 16, t2 if t2 != t1 else struct.unpack_from("<Q", b, 48)[0])
    expect("asymmetric link", a, bytes(lb), "S7")
    # partial block
    expect("partial block", a + b"\0" * 5, b, "S1")
    # stale write (M2)
    M.install_m2()
    from traph.lru_trie.node import LRUTrieNode

    st = t.lru_trie_storage
    n1 = LRUTrieNode(st, block=128)
    n2 = LRUTrieNode(st, block=128)
    n1.set_webentity(7)
    n1.write()
    n2.flag_as_page()
    n2.data[2] = 0
    M.m2_take()
    n2.write()
    if not M.m2_take():
        print("selftest: M2 did not report a lost update")
        ok = False
    print("selftest:", "ok" if ok else "FAILED")
    return 0 if ok else 1


if __name__ == "__main__":
    sys.exit(main())
